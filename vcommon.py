"""shared helpers of check and qdriver"""
import json
import os
import re

ROOT = os.path.dirname(os.path.abspath(__file__))


def load_known():
    p = os.path.join(ROOT, 'known_findings.json')
    if not os.path.exists(p):
        return []
    return json.load(open(p))['findings']


def match_known(v, prop, known):
    for k in known:
        if k.get('status') != 'known' or prop not in k['properties']:
            continue
        m = k['match']
        ok = True
        for field, rx in m.items():
            if not re.search(rx, str(v.get(field, ''))):
                ok = False
                break
        if ok:
            return k
    return None


