#!/usr/bin/env python3
"""Sensitivity run: revert each fix: commit in /repo's working tree (never committed), run the quick
check(s) of the properties it belongs to, record whether a VIOLATION was printed, restore the tree.
Usage: revert_sensitivity.py [D-id ...]   (default: all fixed findings)  -> /verif/seeded/reverts.json"""
import json, os, subprocess, sys, time
ROOT = os.path.dirname(os.path.dirname(os.path.abspath(__file__)))
k = json.load(open(f'{ROOT}/known_findings.json'))['findings']
want = set(sys.argv[1:])
out_path = f'{ROOT}/seeded/reverts.json'
os.makedirs(f'{ROOT}/seeded', exist_ok=True)
res = json.load(open(out_path)) if os.path.exists(out_path) else {}
def sh(*a, **kw):
    return subprocess.run(a, capture_output=True, text=True, **kw)
assert sh('git', '-C', '/repo', 'status', '--porcelain').stdout.strip() == '', '/repo not clean'
for f in k:
    if f['status'] != 'fixed' or (want and f['id'] not in want):
        continue
    r = sh('git', '-C', '/repo', 'revert', '--no-commit', f['commit'])
    if r.returncode != 0:
        sh('git', '-C', '/repo', 'revert', '--abort'); sh('git', '-C', '/repo', 'reset', '--hard', 'HEAD')
        res[f['id']] = {'commit': f['commit'], 'result': 'revert conflicts with later fixes (not tested alone)'}
        print(f['id'], 'conflict'); continue
    entry = {'commit': f['commit'], 'checks': {}}
    for p in f['properties'][:2]:
        t0 = time.time()
        c = sh(f'{ROOT}/check', p, cwd=ROOT)
        lines = [l for l in c.stdout.splitlines() if l.startswith('VIOLATION') or l.startswith('  ') and 'kind=' in l]
        entry['checks'][p] = {'exit': c.returncode, 'violation_lines': lines[:4], 'wall_s': round(time.time() - t0, 1)}
        print(f['id'], p, 'exit', c.returncode, (lines[1][:200] if len(lines) > 1 else ''), flush=True)
        if c.returncode == 1:
            break
    res[f['id']] = entry
    sh('git', '-C', '/repo', 'revert', '--abort'); sh('git', '-C', '/repo', 'reset', '--hard', 'HEAD')
    json.dump(res, open(out_path, 'w'), indent=1)
print('done')
