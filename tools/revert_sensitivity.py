#!/usr/bin/env python3
"""Sensitivity run: revert each fix: commit on a scratch worktree of /repo's HEAD (tools/isoenv.py; /repo itself is not
touched), run the quick check(s) of the properties it belongs to with the same driver, record whether a VIOLATION was
printed.  Usage: revert_sensitivity.py [D-id ...]   (default: all fixed findings)  -> /verif/seeded/reverts.json"""
import json, os, sys, time
sys.path.insert(0, os.path.dirname(os.path.abspath(__file__)))
from isoenv import Env, ROOT, sh

k = json.load(open(f'{ROOT}/known_findings.json'))['findings']
want = set(a for a in sys.argv[1:] if not a.startswith('--'))
allprops = '--all-props' in sys.argv
out_path = f'{ROOT}/seeded/reverts.json'
res = json.load(open(out_path)) if os.path.exists(out_path) else {}
for f in k:
    if f['status'] != 'fixed' or (want and f['id'] not in want):
        continue
    with Env() as ev:
        r = sh('git', '-C', ev.repo, 'revert', '--no-commit', f['commit'])
        if r.returncode != 0:
            res[f['id']] = {'commit': f['commit'], 'note': 'revert conflicts with later fixes (not tested alone)'}
            print(f['id'], 'conflict', flush=True)
        else:
            entry = {'commit': f['commit'], 'checks': {}}
            for p in (f['properties'] if allprops else f['properties'][:2]):
                t0 = time.time()
                c, lines = ev.check(p)
                entry['checks'][p] = {'exit': c.returncode, 'violation_lines': [l for l in lines if not l.startswith('KNOWN')][:4], 'wall_s': round(time.time() - t0, 1)}
                if c.returncode not in (0, 1):
                    entry['checks'][p]['tail'] = (c.stdout + c.stderr)[-1200:]
                print(f['id'], p, 'exit', c.returncode, (lines[1][:200] if len(lines) > 1 else ''), flush=True)
                if c.returncode == 1:
                    break
            res[f['id']] = entry
    json.dump(res, open(out_path, 'w'), indent=1)
print('done')
