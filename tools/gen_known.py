#!/usr/bin/env python3
"""Regenerate /verif/known_findings.json (committed; never written by a check at run time).

`fixed` entries are looked up in /repo's history by the subject of their fix: commit and carry the
abbreviated hash; they suppress nothing. `known` entries carry the signature a violation record must
match (regexes over its fields) to be reported as KNOWN-FINDING instead of VIOLATION."""
import json
import os
import subprocess

ROOT = os.path.dirname(os.path.dirname(os.path.abspath(__file__)))

FIXED = [
    ('D1', ['C08', 'C18'], 'AtomicDuration rounds sub-millisecond timeouts up', 'timed waits of 0 / < 1 ms never returned in coroutine context (Semphore::wait_timeout(500us), recv_timeout(500us), read timeouts), 1.7 ms fired after 1.1 ms'),
    ('D2', ['C02', 'C08', 'C10', 'C11', 'C15', 'C16'], 'Park::subscribe reports the timeout itself', 'timed park lost its time-out when the subscribing thread was delayed >= d between arming the timer and storing the coroutine (stall at PARK_SUB_ARMED / inside add_timer; natural preemption under load)'),
    ('D3', ['C07'], 'spsc coroutine receiver re-checks disconnect', 'spsc coroutine receiver stranded when the Sender is dropped between its failed try_recv and its registration'),
    ('D4', ['C07'], 'mpmc disconnect wakes every receiver', 'mpmc: two receivers between try_recv and sem.wait (or one plus a value taken by another receiver) when the last Sender drops: one blocks forever'),
    ('D5', ['C12'], 'RwLock::try_read counts the reader', 'try_read on a poisoned lock returned an uncounted guard: drop underflows (debug panic / release: lock leaked, try_write WouldBlock forever)'),
    ('D6', ['C12'], 'RwLock::try_lock reports a lost CAS as WouldBlock', 'lost CAS on a poisoned RwLock reported as Poisoned, which lock()/try_write treat as acquired: two writers inside'),
    ('D7', ['C14'], 'scope() waits for its children even if the owner is cancelled', 'cancel of a scope/join! owner: scope left while children still ran and used the freed frame (ASan heap-use-after-free)'),
    ('D8', ['C09', 'C14'], 'cqueue::scope drains its select coroutines even if the owner is cancelled', 'cancelled select! owner with one worker busy-polled in Cqueue::drop forever (livelock); with join! nested in an arm the scope was left early'),
    ('D9', ['C13', 'C14'], 'scope() joins the remaining children before re-throwing', 'scope owner blocked while unwinding (owner panic, or child panic with siblings still running): other coroutines on that worker saw thread::panicking()==true'),
    ('D10', ['C15', 'C09'], 'a new coroutine discards the event result', 'select arm cancelled at the top of yield_with left Canceled in the pooled generator: the next coroutine on that stack got Err(Canceled) from its first park'),
    ('D11', ['C05', 'C09', 'C10'], 'Park waits for its subscribe to finish without raising a cancel panic', 'cancellable wait in Park::drop: a waiter that was handed the mutex panicked in the drop of its blocker, the guard was never created: mutex locked forever'),
    ('D12', ['C11', 'C05', 'C09'], 'Mutex::lock leaves the release flag alone', 'ignored cancel in Mutex::lock (Condvar re-lock) left the release flag set: the unlocker released the lock twice, later locker stranded'),
    ('D15', ['C01', 'C08', 'C13'], 'Park and Sleep keep the coroutine handle alive', 'heap-use-after-free in Sleep::subscribe / Park::subscribe on a detached coroutine that ended before subscribe returned'),
    ('D16', ['C07', 'C06'], 'mpmc try_recv reports Disconnected only when', 'mpmc try_recv returned Disconnected while a value was still queued (permit held by another receiver) and a later call returned that value'),
    ('D17', ['C09', 'C01'], 'Park and Sleep register with the cancel data before publishing', 'late cancel registration from a delayed Sleep/Park subscribe overwrote the registration of the coroutine\'s next blocking call: cancel() found nothing, join() never returned'),
    ('D18', ['C16', 'C14'], 'select coroutines finish using the cqueue before', 'EventSender::subscribe / drop used the EventSender (arm stack) and Cqueue (poller stack) after pushing the event: segfault once the poller had left the scope'),
    ('D19', ['C14', 'C16'], 'Cqueue::drop finishes draining when it meets a panicked', 'arm panic first seen by the final drain was re-thrown at once: scope left by unwinding while other select coroutines were alive'),
    ('D20', ['C13', 'C16'], 'cqueue re-throws a select coroutine', 'poll() meeting a panicked select coroutine poisoned the selectors mutex; Cqueue::drop then panicked during the unwinding: process abort'),
    ('D21', ['C16', 'C13'], 'Cqueue::poll looks at the queue once more', 'poll reported Finished with the final event of the last select coroutine still queued: its panic was never re-thrown'),
    ('D14', ['C17', 'C18', 'C09'], 'unix io subscribe no longer touches the socket', 'unix io subscribe used self.io_data / the cancel data after storing the coroutine: heap-use-after-free once another worker resumed it and it dropped the socket or ended; stale cancel registration'),
    ('D22', ['C18', 'C17', 'C13'], 'the io timer handle of a socket is exchanged atomically', 'EventData::timer RefCell touched from the subscribing worker and the selector thread: "already borrowed" panic kills a worker thread'),
    ('D23', ['C18', 'C17', 'C19'], 'Entry::with_mut_data ignores an entry that was already popped', 'disarming an io timer that had just fired panicked with "Node value is None" and killed the worker thread: missed readiness for everything it served'),
    ('D24', ['C05', 'C09', 'C10', 'C11'], "SyncBlocker's release/unparked handshake gets the full fences", 'store->load reordering between set_release/unpark on x86: a released waiter and its waker both missed each other, the waiter never resumed (hsmutex/hssem stress with the hooks uninstalled, ~1 in 20000 rounds)'),
    ('D25a', ['C19', 'C18', 'C08'], 'the reference count of a timer list node is atomic', 'Entry ref count of mpsc_list_v1 nodes was a plain usize updated from the timer thread and from handle owners: lost decrement / double free under contention'),
    ('D25b', ['C19', 'C18', 'C08'], 'dropping a timer list leaves its stub node', 'TimeOutList interval clean-up (> 1024 distinct intervals) dropped a list whose stub node a TimeoutHandle still pointed to: heap-use-after-free in Entry::drop (ASan, tcp/io at 16 workers)'),
    ('D26', ['C17'], 'CoIo leaves the selector before its descriptor is closed', 'CoIo (unix sockets) closed the descriptor before EPOLL_CTL_DEL; a socket opened in between by another thread reused the number and lost its registration: reader suspended forever with bytes in the kernel (iochurn; rare hangs of the os::unix::net tests)'),
    ('D27', ['C12', 'C09'], 'RwLock read_unlock waits for the reader count with cancel disabled', 'cancel of a reader coroutine while it waits for the reader-count mutex in the drop of its guard (other readers active): cancel panic out of the drop, count never decremented, lock read-locked forever, writers stranded (rwcr, first few executions)'),
    ('D28', ['C11', 'C05', 'C09'], 'SyncBlocker::unpark sets its flag before it wakes the waiter', 'a notified Condvar waiter re-locking the mutex (cancel ignored) is resumed by a cancel between the unlocker\'s blocker.unpark() and its unparked.store(true): the token is wiped, is_unparked() is still false, the waiter parks again for ever, mutex never released (residual of the D12 repair; relock / cvc with a stall at SYNCBLOCKER_UNPARK_MID +fire)'),
    ('D2io', ['C18', 'C17', 'C09'], 'a timed socket io reports its timeout also if the timer fired before', 'timed socket I/O: add_io_timer arms the timer before io_data.co.store(co); subscribing thread delayed >= the timeout in between with the selector on another worker: the timer fires into the empty slot, the time-out is lost, the operation blocks for ever (class io_timer_fired_before_publish; was a known finding until the repair)'),
    ('D29', ['C18', 'C09', 'C17'], 'cancelling a timed socket io disarms its timer', 'cancel of a coroutine blocked in a timed recv on a shared socket (Arc<UdpSocket>): the timer of the cancelled operation stays armed and fails a later operation on that socket with TimedOut long before its own time-out (iocant: "recv #0 with a 14ms time-out failed with TimedOut after 3.1ms")'),
    ('D30', ['C16', 'C14', 'C13'], 'Cqueue::poll re-checks the count of select coroutines after registering', 'poll(None) (select!, the drain of Cqueue::drop) sleeps for ever: the poller consumed the final event of the last select coroutine before that one decremented the count, saw queue empty + count != 0, and the decrement + wake-up fell between its look at the count and its registration (thorough cq, ~1 in 150 000 executions; 3 of 1.1 M in the first thorough sweep)'),
    ('D31', ['C18', 'C17'], 'an io timer entry only times out the operation it was armed for', 'the io timeout handler takes whatever coroutine is blocked on the socket when it gets there: a handler that loses the cpu between its validity check and co.take() (or an entry that fires late) fails a *later* operation with TimedOut long before its deadline once its own operation ended on another thread meanwhile (fast_schedule, cancel, and since the D2io repair subscribe itself): "read timeout of 5000us fired after 760us". Raised by a fresh-restore quick run of C18 (4-entry random plan), 4 of 4 handshake shards within 90-405 executions, 73 000 clean after the repair'),
    ('D32', ['C16', 'C09', 'C14'], 'a select coroutine whose send meets a cancel does not run its bottom half', 'a cancel (Selector::remove, loser of select!, cqueue drop) between the two cancel checks of EventSender::send / yield_with: no event pushed, nobody polls it, the bottom half runs anyway on a worker thread beside the poller (cq: "removed arm 0: poll delivered 0 events, top halves 1, bottom halves 1"); the harness had tolerated it, a seeded change that widened the window showed it is the same defect'),
    ('D33', ['C01', 'C07', 'C17', 'C18'], 'a worker whose local queue never runs empty starves its event loop', 'coroutines that yield in a loop (polling try_recv, waiting for a flag) keep their workers inside run_queued_tasks for ever: a coroutine made ready through the global queue (sleep ended, unparked / spawned / sent to from a thread), by an io event or an io timeout of that worker never runs again ("the workers executed 4 000 001 yields after the coroutine became ready and it still has not run", 4 of 4 runs, every worker count); in the thorough C07 sweep the try_recv pollers of `dis` spun until the harness log had eaten 17 GB and the OOM killer ended the shard'),
    ('D34', ['C01', 'C04'], 'spmc bulk_pop works out its range after it has locked the head', 'a stealer stalled between reading head / push index and its CAS in bulk_pop wins the CAS after the head block was freed and re-allocated at the same address with the head back at the same index (ABA) and claims beyond the owner\'s tail: it sleeps in the "wait there is enough data" loop holding the tasks in front of the unpublished slots, the owner spins on a queue that is neither empty nor poppable; with no more work for that worker the coroutines in the claimed slots never run (spawnp: "watchdog 25s without quiescence (threads \'SRSS\')", 13 of 16 shards with a stall at SPMC_BULK_LOADED, once without any stall in joinrace)'),
    ('D35', ['C10', 'C11', 'C05', 'C12', 'C06'], 'waking past waiters that have given up no longer recurses', 'Semphore::post / Condvar::notify_one / SyncFlag::fire / Mutex and RwLock unlock pass the permit, notification or lock past every waiter that has given up (timed-out wait_timeout, cancelled lock) by calling themselves again, one stack frame per such waiter: after ~700 of them in a row the operation overflows the default coroutine stack ("stack overflow detected, size=4096"), the coroutine dies half way, the permit is lost (Semphore { cnt: -2338 } after a post), the mutex stays locked. Seen first as a recv_timeout(2 ms) poller whose stale entries a stalled sender could not get past; scenario `stale`: 6 of 6 runs on the unrepaired tree'),
    ('D36', ['C17', 'C18', 'C19'], 'an io timer entry is unlinked by its selector thread only', 'EventData::fast_schedule (called by every subscribe when the event arrived between EAGAIN and the registration, on whatever worker runs the coroutine) and schedule unlinked the finished operation\'s timer entry with Entry::remove - a consumer-side operation of the list - although the list is run by the selector thread of fd % workers: beside that thread\'s pop_if the links break ("assertion failed: (*tail).value.is_none()" at mpsc_list_v1.rs:247), the selector thread dies and its sockets stay suspended with data in the kernel (thorough C17: "missed readiness edge: reader0 suspended in read(fd 4) while the kernel reports it readable (9854 bytes readable)", once in 1.2 M executions). The timer-list contract monitor (hook IO_TIMER_UNLINK vs the thread seen at EP_BEFORE_TIMERS) shows the cross-thread unlink itself within 400-1 200 executions of iot / io'),
    ('D37', ['C14', 'C16', 'C13'], 'a cqueue joins every select coroutine, also after one of them has panicked', 'after check_panic has re-thrown the panic of one select coroutine it returns early for every later Done event without joining that coroutine; the Done event comes from the drop of the EventSender, the coroutine\'s captures are released after it: cqueue::scope / select! are left while a select coroutine is still dropping captures that borrow the enclosing frame ("cqueue scope was left while 1 select coroutine(s) were still releasing what they had captured", within 900-7 700 executions of cq on 1, 2 and 4 workers). Pointed out by a seeding sub-agent whose first demo failed on the unmodified tree'),
]

KNOWN = [
    {'id': 'D13', 'status': 'known', 'properties': ['C09', 'C12'],
     'what': 'cancelling a coroutine that holds an RwLockReadGuard while other readers contend for the reader-count mutex: the guard\'s drop during the Cancel unwind cannot block, Mutex::lock raises a second panic while unwinding -> the process aborts (no small sound repair: nothing may block during a Cancel unwind)',
     'match': {'scenario': '^probe_d13$', 'kind': '^crash$', 'msg': 'signal 6|status 134'}},
]


def main():
    log = subprocess.run(['git', '-C', '/repo', 'log', '--format=%h\t%s', '--grep=^fix:'], capture_output=True, text=True).stdout.splitlines()
    findings = list(KNOWN)
    for fid, props, subj, what in FIXED:
        hits = [l.split('\t')[0] for l in log if subj in l]
        if len(hits) != 1:
            raise SystemExit(f'{fid}: {len(hits)} commits match {subj!r}')
        findings.append({'id': fid, 'status': 'fixed', 'properties': props, 'commit': hits[0], 'what': what,
                         'line': f'fixed: property={props[0]} {hits[0]} {what}'})
    doc = {'comment': 'Genuine defects of Xudong-Huang/may met by the checks (DESIGN.md section 5). status=known: not repaired; a violation record whose fields match all '
                      'regexes in `match` is printed as KNOWN-FINDING and does not fail the check; anything else does. status=fixed: repaired by the named fix: commit in /repo; '
                      'suppresses nothing. Generated by tools/gen_known.py; never written at run time.',
           'findings': findings}
    json.dump(doc, open(os.path.join(ROOT, 'known_findings.json'), 'w'), indent=1)
    print(f'{len(findings)} findings ({len(KNOWN)} known, {len(FIXED)} fixed)')


if __name__ == '__main__':
    main()
