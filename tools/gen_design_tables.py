#!/usr/bin/env python3
"""Rewrite the generated tables of DESIGN.md §7.1 (between the BEGIN/END markers) from seeded/*/meta.json and seeded/reverts.json."""
import glob, json, os, re
ROOT = os.path.dirname(os.path.dirname(os.path.abspath(__file__)))


def witness(w):
    for l in w:
        if 'kind=' in l:
            l = l.strip()
            m = re.match(r'(\S+) workers=(\d+) lane=(\S+) kind=(\S+?):? (.*)', l)
            if m:
                return f'`{m.group(1)}` w={m.group(2)} {m.group(3)}: {m.group(4)} — {m.group(5)[:150]}'.replace('|', '/')
            return l[:200].replace('|', '/')
    return ''


def seeded():
    rows = ['| seeded change | property | needs | confirmed | caught by (quick, VERIF_SEED=1) | witness |', '|---|---|---|---|---|---|']
    for f in sorted(glob.glob(f'{ROOT}/seeded/*/meta.json')):
        m = json.load(open(f))
        res = m.get('check_results', {})
        caught = [p for p, r in res.items() if r.get('caught')]
        missed = [p for p, r in res.items() if not r.get('caught')]
        wit = ''
        for p in caught:
            wit = witness(res[p].get('witness', []))
            if wit:
                break
        how = ', '.join(caught) if caught else '**missed**'
        if m.get('superseded'):
            how = 'no longer a break on the current tree (see note)'
        if missed and caught:
            how += f' (not by {", ".join(missed)})'
        note = m.get('confirm_note')
        if not m.get('confirmed') and not note:
            c = m.get('confirmation', {})
            su = c.get('suite_with_change', [])
            bad = [x for x in su if x.get('passed', 0) < 300]
            if bad and all(r.get('passed') is False for r in c.get('demo_with_change', [{}])) and all(r.get('passed') for r in c.get('demo_without_change', [{}])):
                what = '; '.join((x['failed_lines'][0] if x.get('failed_lines') else f"hung after {x['passed']} tests") for x in bad)
                note = f"demo fails with / passes without, but 1 of 2 suite runs did not complete ({what[:70]}): load-dependent upstream tests or a rare hit of the change itself"
            else:
                note = 'see meta.json'
        rows.append(f"| `{m['seed_id']}` | {m['property']} | {m.get('needs_to_manifest', '')[:160]} | {'yes' if m.get('confirmed') else 'no: ' + note} | {how} | {wit} |")
    return '\n'.join(rows)


def reverts():
    p = f'{ROOT}/seeded/reverts.json'
    if not os.path.exists(p):
        return ''
    r = json.load(open(p))
    rows = ['| reverted fix | commit | checks run → exit | first witness |', '|---|---|---|---|']
    for d, v in r.items():
        if 'checks' not in v:
            rows.append(f"| {d} | {v.get('commit', '')} | {v.get('note', v.get('error', 'not run'))[:120]} | |")
            continue
        ex = ', '.join(f"{c}→{x['exit']}" for c, x in v['checks'].items())
        wit = ''
        for c, x in v['checks'].items():
            wit = witness(x.get('violation_lines', []))
            if wit:
                break
        rows.append(f"| {d} | {v.get('commit', '')} | {ex} | {wit} |")
    return '\n'.join(rows)


def main():
    p = f'{ROOT}/DESIGN.md'
    s = open(p).read()
    for tag, body in (('SEEDED', seeded()), ('REVERTS', reverts())):
        b, e = f'<!-- {tag}-TABLE-BEGIN -->', f'<!-- {tag}-TABLE-END -->'
        assert b in s and e in s, tag
        s = s[:s.index(b) + len(b)] + '\n' + body + '\n' + s[s.index(e):]
    open(p, 'w').write(s)


if __name__ == '__main__':
    main()


SCEN_DESC = {
    'spawn': 'spawn/join storms: return, panic, cancel endings, detached handles, migration; join() value/panic/Cancel truthfulness, exactly-once run',
    'spawnp': 'the same with a stack pool of capacity 4 (stacks reused at once)',
    'coldpin': 'fresh-process mode (3 executions per process): pinned children (Builder::id) handed to every worker of a runtime that has just started, from a coroutine, a thread and a pinned coroutine',
    'joinrace': 'no-hook stress: 30 000 spawn+join (wait+is_done) rounds per execution',
    'park': 'rounds of park / park_timeout (whole and fractional ms) on a fresh Blocker or the coroutine handle, 1-3 unparkers; Ok only after an unpark, Timeout never early, never Canceled',
    'parkrace': 'no-hook stress: park/unpark turn passing between a coroutine and a spinning thread',
    'mutex': 'n lockers (threads + coroutines), occupancy + payload + lost-update checks, try_lock',
    'mutexc': 'the same with a cancelled waiter (cancel at any point of lock())',
    'hsmutex': 'no-hook stress: release/unparked handshake of Mutex under timed-out / cancelled waiters',
    'lockrace': 'no-hook stress: 2-4 parties (half of the instances 3-4 plain threads) x 10^5 lock sections',
    'chan': 'mpsc / spsc / mpmc: every message exactly once, per-sender order, drop counts, blocking / timed / polling receivers',
    'chanrace': 'no-hook stress: ping-pong over each channel kind',
    'dis': 'last Sender dropped at any point of a receiver\'s recv (gated stalls): Disconnected after the queued values, every receiver released',
    'disrx': 'Receiver dropped while senders send: send fails, queued values dropped once',
    'disrace': 'no-hook stress: 10^4 drop-vs-recv rounds',
    'tmr': 'timed waits of ten primitives over 13 durations (0, 1 ns ... 10.5 ms): never early, must return; promptness as Suspect',
    'tmrmix': 'many timers at once, > 1024 distinct intervals, heads removed, short timer armed behind long ones',
    'tmrrace': 'no-hook stress: timer thread wake-up vs new earliest timer',
    'can': 'cancel enumeration: target blocked in each of 16 blocking calls, cancel at every hook window (fire plans); cleanup, drop counts, permits, join() = Cancel',
    'semc': 'cancelled semaphore waiter beside others: permit conservation',
    'cvc': 'condvar tokens with a cancelled waiter (incl. give-up accounting)',
    'rwc': 'RwLock with a cancelled writer waiter',
    'rwcr': 'RwLock with a cancelled *reader* (beside other readers), then exclusion re-checked with fresh readers and writers',
    'relock': 'notified condvar waiters re-locking the mutex while cancelled around the holder\'s unlock',
    'iocan': 'cancel of a coroutine blocked in one of seven receive-side socket calls (unix/tcp stream read, tcp/unix accept, udp recv / recv_from, unix datagram recv_from) beside a bystander transfer: once cancel() has returned it must end with Cancel and close what it owned, whatever the kernel says about its socket',
    'stale': '40-6000 waiters that gave up in a row (timed-out Semphore / Condvar / SyncFlag waits, cancelled Mutex / RwLock lockers), then post / notify_one / fire / unlock on a coroutine with may\'s default stack: must return, the permit / notification / lock must arrive',
    'ioext': 'the rest of the socket API: split() full duplex (tcp / unix, four parties on one connection), peek / read alternation, connect_timeout against a listener whose accept queue is full (TimedOut, never early, never hanging) and then a live one, CoIo over a std socket, a caller-driven wait_io loop',
    'cvpoison': 'condvar waiters (wait / wait_timeout / wait_while, threads and coroutines) whose notifier sets the flag, notifies and panics under the lock: every wait returns holding the mutex (occupancy monitor over the guards taken out of the PoisonError and over later lock sections), the poisoned mutex stays usable',
    'iotrace': 'no-hook stress: one-byte request / answer loop (tcp / unix) with a 300 ms read time-out on the requesting side, 12 000 rounds per execution, the read starts 0-1500 spins after the request: TimedOut only if the answer was written less than 150 ms before',
    'iocanshare': 'the target waited on a socket before and now blocks in a channel / park / semaphore while another coroutine is blocked on that same socket: a cancel must reach the target, the other coroutine neither ends nor observes a cancellation and still gets the next datagram',
    'yieldspin': 'every worker kept busy by coroutines that only yield until a flag is set; the flag is set by a coroutine that becomes ready from outside the workers (sleep ends, unparked / spawned / sent to / posted to by a thread); verdict in logical steps: yields executed after the waker returned',
    'yieldspinio': 'the same with readiness through the selector: a datagram sent by a thread, an io time-out that expires',
    'iocant': 'cancel of a *timed* recv on a shared socket that lives on: later timed recvs must neither fail early nor lose their datagram',
    'hssem': 'no-hook stress: semaphore hand-over handshake',
    'sem': 'waiters (wait / wait_timeout / try_wait) vs a poster: prefix condition successes <= init + posts at every point, final value',
    'semlock': 'semaphore(1|2) used as a lock by 3-4 parties: occupancy never above init',
    'semrace': 'no-hook stress: semaphore ping-pong',
    'flag': 'SyncFlag: fire vs wait / wait_timeout, one-way latch',
    'cv': 'token passing through Mutex+Condvar, timed and untimed consumers; give-up mode: impatient consumers leave, tokens == patient consumers, a token left beside a sleeping patient consumer = lost notification',
    'cvrace': 'no-hook stress: condvar ping-pong',
    'bar': 'Barrier generations and WaitGroup: release exactly when due, one leader',
    'barc': 'reused Barrier with a coroutine party cancelled while it waits in generation 0 (its arrival counted, a substitute from generation 1 on): nobody released before n arrivals',
    'rwseq': 'sequential random RwLock operation sequences against a reference model (poison, try_*)',
    'rw': 'readers / writers with occupancy monitors, poisoned and try_* variants',
    'pan': 'panic storm after detached panickers on pooled stacks: payload delivery, poisoning, bystanders never see thread::panicking(), workers stay healthy',
    'scope': 'scoped children x owner panic / owner cancel / child panic; scope never left while a child runs (exit guard), results once',
    'selc': 'select! with join! nested in an arm, owner cancelled: borrowed frame never used after exit',
    'cls': 'coroutine-local storage: predecessors (residue x ending) on pooled stacks, successors must start clean (first blocking call variants)',
    'sel': 'select! over ready/late arms: token of a fully run arm, no arm running afterwards',
    'cq': 'cqueue poll loops: repeated events, time-outs, removed selectors, panicking arm (incl. forever mode with a silent live arm), early exit',
    'cqrace': 'no-hook stress: poll vs send',
    'io': 'one-way stream transfer (unix / tcp), random chunking, small send buffers, timed reads: content, order, length, EOF, kernel-view readiness oracle',
    'tcp': 'accept/connect/echo with several clients, 1-16 workers',
    'dgram': 'UDP and unix datagrams: boundaries, peers',
    'iochurn': 'sessions that open, use and close sockets concurrently: descriptor numbers reused across threads',
    'unixsrv': 'shapes of may\'s own os::unix::net tests (accept in a coroutine, connect + try_clone + reads from a thread)',
    'iorace': 'no-hook stress: echo ping-pong',
    'iot': 'timed socket operations: data before / at / after the deadline, sequences on one socket; never early, later operations undisturbed',
}


def catalogue():
    import sys
    sys.path.insert(0, ROOT)
    import plans
    rows = ['| property | scenario families (lane/kind) |', '|---|---|']
    used = set()
    for p, pl in sorted(plans.PLANS.items()):
        if pl.get('engine') == 'q':
            continue
        items = []
        for j in pl['jobs']:
            tag = j['scen'] + ('(dir)' if j.get('only_prefix') else '') + ('(stress)' if j.get('no_hook') else '') + ('(reuse)' if j.get('reuse') else '') + (f":{j['lane']}" if j.get('lane', 'plain') != 'plain' else '')
            if tag not in items:
                items.append(tag)
            used.add(j['scen'])
        rows.append(f"| {p} | {', '.join(items)} |")
    rows.append('')
    rows.append('| scenario | what it drives and judges |')
    rows.append('|---|---|')
    for sc in sorted(used):
        rows.append(f"| `{sc}` | {SCEN_DESC.get(sc, '')} |")
    return '\n'.join(rows)


def main2():
    p = f'{ROOT}/DESIGN.md'
    s = open(p).read()
    b, e = '<!-- CATALOGUE-BEGIN -->', '<!-- CATALOGUE-END -->'
    if b in s and e in s:
        s = s[:s.index(b) + len(b)] + '\n' + catalogue() + '\n' + s[s.index(e):]
        open(p, 'w').write(s)


if __name__ == '__main__':
    main2()
