#!/usr/bin/env python3
"""Rewrite the generated tables of DESIGN.md §7.1 (between the BEGIN/END markers) from seeded/*/meta.json and seeded/reverts.json."""
import glob, json, os, re
ROOT = os.path.dirname(os.path.dirname(os.path.abspath(__file__)))


def witness(w):
    for l in w:
        if 'kind=' in l:
            l = l.strip()
            m = re.match(r'(\S+) workers=(\d+) lane=(\S+) kind=(\S+?):? (.*)', l)
            if m:
                return f'`{m.group(1)}` w={m.group(2)} {m.group(3)}: {m.group(4)} — {m.group(5)[:150]}'.replace('|', '/')
            return l[:200].replace('|', '/')
    return ''


def seeded():
    rows = ['| seeded change | property | needs | confirmed | caught by (quick, VERIF_SEED=1) | witness |', '|---|---|---|---|---|---|']
    for f in sorted(glob.glob(f'{ROOT}/seeded/*/meta.json')):
        m = json.load(open(f))
        res = m.get('check_results', {})
        caught = [p for p, r in res.items() if r.get('caught')]
        missed = [p for p, r in res.items() if not r.get('caught')]
        wit = ''
        for p in caught:
            wit = witness(res[p].get('witness', []))
            if wit:
                break
        how = ', '.join(caught) if caught else '**missed**'
        if missed and caught:
            how += f' (not by {", ".join(missed)})'
        rows.append(f"| `{m['seed_id']}` | {m['property']} | {m.get('needs_to_manifest', '')[:160]} | {'yes' if m.get('confirmed') else 'no: ' + m.get('confirm_note', 'see meta.json')} | {how} | {wit} |")
    return '\n'.join(rows)


def reverts():
    p = f'{ROOT}/seeded/reverts.json'
    if not os.path.exists(p):
        return ''
    r = json.load(open(p))
    rows = ['| reverted fix | commit | checks run → exit | first witness |', '|---|---|---|---|']
    for d, v in r.items():
        if 'checks' not in v:
            rows.append(f"| {d} | {v.get('commit', '')} | {v.get('note', v.get('error', 'not run'))[:120]} | |")
            continue
        ex = ', '.join(f"{c}→{x['exit']}" for c, x in v['checks'].items())
        wit = ''
        for c, x in v['checks'].items():
            wit = witness(x.get('violation_lines', []))
            if wit:
                break
        rows.append(f"| {d} | {v.get('commit', '')} | {ex} | {wit} |")
    return '\n'.join(rows)


def main():
    p = f'{ROOT}/DESIGN.md'
    s = open(p).read()
    for tag, body in (('SEEDED', seeded()), ('REVERTS', reverts())):
        b, e = f'<!-- {tag}-TABLE-BEGIN -->', f'<!-- {tag}-TABLE-END -->'
        assert b in s and e in s, tag
        s = s[:s.index(b) + len(b)] + '\n' + body + '\n' + s[s.index(e):]
    open(p, 'w').write(s)


if __name__ == '__main__':
    main()
