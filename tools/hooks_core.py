# hook insertions for the runtime core (see addhook.py for the tuple format)
Y = 'src/yield_now.rs'
C = 'src/coroutine_impl.rs'
SCH = 'src/scheduler.rs'
J = 'src/join.rs'
CA = 'src/cancel.rs'
PO = 'src/pool.rs'
SL = 'src/sleep.rs'
P = 'src/park.rs'
T = 'src/timeout_list.rs'
SELF = 'self as *const _ as usize'
SLOT = 'Arc::as_ptr(&self.wait_co) as usize'
HOOKS = [
    # ---- yield_now.rs
    (Y, '// if cancel detected in user space', 1, 'before', 'YIELD_WITH_ENTER', '0'),
    (Y, 'co_yield_with(es);', 1, 'before', 'YIELD_WITH_BEFORE', '0'),
    (Y, 'get_scheduler().schedule(co);', 1, 'before', 'YIELD_SUBSCRIBE', '0'),
    (Y, 'std::thread::park();', 1, 'before', 'IOTHREAD_SENT', '0'),
    # ---- coroutine_impl.rs
    (C, 'match co.resume() {', 1, 'before', 'RUN_CO_ENTER', 'get_co_local(&co) as usize'),
    (C, 'let resource = unsafe { &mut *self.resource };', 1, 'before', 'RUN_CO_EXIT', 'get_co_local(&c) as usize'),
    (C, '// panic happened here', 1, 'before', 'RUN_CO_EXIT', 'get_co_local(&co) as usize'),
    (C, 'let s = get_scheduler();', 1, 'after', 'SPAWN_BEFORE_SCHEDULE', '0'),
    (C, 'their_join.trigger();', 1, 'before', 'CO_DONE_BEFORE_TRIGGER', '0'),
    (C, '// trigger the join here', 1, 'before', 'CO_PANIC_BEFORE_TRIGGER', '0'),
    # ---- scheduler.rs
    (SCH, '// just re-push the co to the visit list', 1, 'before', 'TIMER_FIRE', 'Arc::as_ptr(&c) as usize'),
    (SCH, '// set the timeout result for the coroutine', 1, 'before', 'TIMER_FIRE_TOOK', 'Arc::as_ptr(&c) as usize'),
    (SCH, 'self.collect_global(id);', 1, 'before', 'SCHED_AFTER_POP_NONE', 'id'),
    (SCH, 'let stealer = self.stealers.get(target).unwrap();', 1, 'before', 'SCHED_BEFORE_STEAL', 'id'),
    (SCH, '// signal one waiting thread if any', 1, 'before', 'SCHED_GLOBAL_PUSHED', 'thread_id'),
    (SCH, '// signal one waiting thread if any', 2, 'before', 'SCHED_GLOBAL_PUSHED', 'thread_id'),
    (SCH, 'let mut v = global.bulk_pop();', 1, 'before', 'SCHED_COLLECT', 'id'),
    # ---- join.rs
    (J, 'self.state.store(false, Ordering::Release);', 1, 'after', 'JOIN_TRIGGER_STORED', SELF),
    (J, '// re-check the state', 1, 'before', 'JOIN_WAIT_REGISTERED', SELF),
    # ---- cancel.rs
    (CA, 'self.state.fetch_or(1, Ordering::Release);', 1, 'after', 'CANCEL_BIT_SET', SELF),
    (CA, '// this is not safe, the kernel may still need to use the overlapped', 1, 'before', 'CANCEL_TOOK', SELF),
    # ---- pool.rs
    (PO, 'self.size.fetch_sub(1, Ordering::AcqRel);', 1, 'after', 'POOL_GET', '0'),
    (PO, '// discard the co if push failed', 1, 'before', 'POOL_PUT', '0'),
    # ---- sleep.rs
    (SL, '// register the cancel data', 1, 'before', 'SLEEP_SUB_ARMED', '0'),
    # ---- park.rs
    (P, '// before a new yield wait the kernel done', 1, 'before', 'PARK_CHECKED', SLOT),
    (P, '// clear the trigger state', 1, 'before', 'PARK_RESUMED', SLOT),
    (P, '// remove timer handle', 1, 'before', 'PARK_AFTER_CLEAR', SLOT),
    (P, '// if we share the same park, the previous timer may wake up it by false', 1, 'before', 'PARK_SUB_ENTER', SLOT),
    (P, '// register the coroutine', 1, 'before', 'PARK_SUB_ARMED', SLOT),
    (P, '// re-check the state, only clear once after resume', 1, 'before', 'PARK_SUB_STORED', SLOT),
    (P, '// register the cancel data', 1, 'before', 'PARK_SUB_RECHECKED', SLOT),
    (P, '// re-check the cancel status', 1, 'before', 'PARK_SUB_CANCELSET', SLOT),
    (P, 'self.wake_up(b_sync);', 1, 'before', 'PARK_UNPARK_SWAPPED', SLOT),
    # ---- timeout_list.rs
    (T, 'fn install_timer_bh(&self, entry: IntervalEntry<T>) {', 1, 'after', 'TL_INSTALL_BH', '0'),
    (T, '// consume all the timeout event', 1, 'before', 'TL_SCHED_POPPED', '0'),
    (T, '// re-push the entry', 1, 'before', 'TL_SCHED_REPUSH', '0'),
    (T, '// wake up the timer thread if it\'s a new queue', 1, 'before', 'TT_ADD_BEFORE_WAKE', '0'),
    (T, 'self.remove_list.push(handle);', 1, 'after', 'TT_DEL_PUSHED', '0'),
    (T, 'self.wakeup.store(current_thread.clone());', 1, 'after', 'TT_RUN_REGISTERED', '0'),
    (T, 'match self.timer_list.schedule_timer(now(), f) {', 1, 'before', 'TT_BEFORE_PARK', '0'),
]
