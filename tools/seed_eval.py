#!/usr/bin/env python3
"""Run the quick checks of a seeded change's property (plus optional extra property ids) against the change and
record what fired in seeded/<id>/meta.json.

  seed_eval.py <seed-id> [extra property ids...]            apply to /repo's working tree, run /verif/check, undo
  seed_eval.py --isolated <seed-id> [extra property ids...]  same checks, but on a scratch worktree of /repo's HEAD with
        the patch applied (/tmp/ev/repo) driven by a copy of /verif whose '/repo' paths point there (/tmp/ev/verif), so
        that /repo stays untouched and other work can go on; serialised by a lock; the copy keeps its build cache.
"""
import json, os, subprocess, sys, time
ROOT = os.path.dirname(os.path.dirname(os.path.abspath(__file__)))
args = sys.argv[1:]
isolated = '--isolated' in args
args = [a for a in args if a != '--isolated']
sid = args[0]
d = f'{ROOT}/seeded/{sid}'
meta = json.load(open(f'{d}/meta.json'))
props = [meta['property']] + args[1:]


def sh(*a, **kw):
    return subprocess.run(a, capture_output=True, text=True, **kw)


def run_checks(root):
    results = meta.setdefault('check_results', {})
    for p in props:
        t0 = time.time()
        c = sh(f'{root}/check', p, cwd=root, env=dict(os.environ, VERIF_SEED=os.environ.get('VERIF_SEED', '1')))
        lines = [l for l in c.stdout.splitlines() if l.startswith('VIOLATION') or l.startswith('KNOWN-FINDING') or (l.startswith('  ') and 'kind=' in l)]
        results[p] = {'exit': c.returncode, 'caught': c.returncode == 1, 'witness': lines[:4], 'wall_s': round(time.time() - t0, 1),
                      'seed': os.environ.get('VERIF_SEED', '1'), 'isolated': isolated}
        if c.returncode not in (0, 1):
            results[p]['tail'] = (c.stdout + c.stderr)[-1500:]
        print(sid, p, 'exit', c.returncode, lines[1][:260] if len(lines) > 1 else '', flush=True)


if not isolated:
    assert sh('git', '-C', '/repo', 'status', '--porcelain').stdout.strip() == '', '/repo not clean'
    r = sh('git', '-C', '/repo', 'apply', f'{d}/patch.diff')
    assert r.returncode == 0, r.stderr
    try:
        run_checks(ROOT)
    finally:
        sh('git', '-C', '/repo', 'checkout', '--', '.')
        assert sh('git', '-C', '/repo', 'status', '--porcelain').stdout.strip() == '', '/repo not restored'
else:
    sys.path.insert(0, os.path.dirname(os.path.abspath(__file__)))
    from isoenv import Env
    with Env() as ev:
        r = sh('git', '-C', ev.repo, 'apply', f'{d}/patch.diff')
        assert r.returncode == 0, r.stderr
        run_checks(ev.verif)
json.dump(meta, open(f'{d}/meta.json', 'w'), indent=1)
