#!/usr/bin/env python3
"""Apply a seeded change (seeded/<id>/patch.diff) to /repo's working tree, run the quick checks of the
property it targets (plus optional extra property ids), record what fired, undo the change.
Usage: seed_eval.py <seed-id> [extra property ids...]"""
import json, os, subprocess, sys, time
ROOT = os.path.dirname(os.path.dirname(os.path.abspath(__file__)))
sid = sys.argv[1]
d = f'{ROOT}/seeded/{sid}'
meta = json.load(open(f'{d}/meta.json'))
props = [meta['property']] + sys.argv[2:]
def sh(*a, **kw):
    return subprocess.run(a, capture_output=True, text=True, **kw)
assert sh('git', '-C', '/repo', 'status', '--porcelain').stdout.strip() == '', '/repo not clean'
r = sh('git', '-C', '/repo', 'apply', f'{d}/patch.diff')
assert r.returncode == 0, r.stderr
try:
    results = meta.setdefault('check_results', {})
    for p in props:
        t0 = time.time()
        c = sh(f'{ROOT}/check', p, cwd=ROOT, env=dict(os.environ, VERIF_SEED=os.environ.get('VERIF_SEED', '1')))
        lines = [l for l in c.stdout.splitlines() if l.startswith('VIOLATION') or (l.startswith('  ') and 'kind=' in l)]
        results[p] = {'exit': c.returncode, 'caught': c.returncode == 1, 'witness': lines[:4], 'wall_s': round(time.time() - t0, 1),
                      'seed': os.environ.get('VERIF_SEED', '1')}
        print(sid, p, 'exit', c.returncode, lines[1][:260] if len(lines) > 1 else '')
finally:
    sh('git', '-C', '/repo', 'checkout', '--', '.')
    assert sh('git', '-C', '/repo', 'status', '--porcelain').stdout.strip() == '', '/repo not restored'
json.dump(meta, open(f'{d}/meta.json', 'w'), indent=1)
