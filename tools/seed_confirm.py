#!/usr/bin/env python3
"""Confirm a seeded change produced by a sub-agent in its scratch worktree and import it.

  seed_confirm.py <seed-id> <property> <worktree> <demo-file-relative> [--needs "..."] [--demo-cmd "..."] [--ok-regex "..."]

In the worktree (mutation applied, as the agent left it):
  1. `git diff -- src may_queue/src` must equal mutation.diff and apply to /repo's HEAD;
  2. the existing suite (demo moved aside) must pass twice;
  3. the demo must fail with the change (3 runs) and pass without it (3 runs; change stashed as a patch).
Then writes /verif/seeded/<seed-id>/{patch.diff, demo file(s), REPORT.md?, meta.json}.
"""
import json, os, shutil, subprocess, sys, time

ROOT = os.path.dirname(os.path.dirname(os.path.abspath(__file__)))


def sh(cmd, cwd, timeout=1200):
    t0 = time.time()
    try:
        p = subprocess.run(cmd, shell=True, cwd=cwd, capture_output=True, text=True, timeout=timeout)
        return p.returncode, p.stdout + p.stderr, time.time() - t0
    except subprocess.TimeoutExpired as e:
        return -999, str(e.stdout)[-2000:] if e.stdout else 'timeout', time.time() - t0


def main():
    sid, prop, wt, demo = sys.argv[1:5]
    needs = sys.argv[sys.argv.index('--needs') + 1] if '--needs' in sys.argv else ''
    demo_name = os.path.splitext(os.path.basename(demo))[0]
    demo_cmd = sys.argv[sys.argv.index('--demo-cmd') + 1] if '--demo-cmd' in sys.argv else f'timeout 300 cargo test --offline --test {demo_name}'
    ok_re = sys.argv[sys.argv.index('--ok-regex') + 1] if '--ok-regex' in sys.argv else 'test result: ok'
    out = f'{ROOT}/seeded/{sid}'
    os.makedirs(out, exist_ok=True)
    rc, diff, _ = sh('git diff -- src may_queue/src', wt)
    assert diff.strip(), 'no library change in the worktree'
    open(f'{out}/patch.diff', 'w').write(diff)
    rc, o, _ = sh(f'git -C /repo apply --check {out}/patch.diff', wt)
    applies = rc == 0
    meta = {'seed_id': sid, 'property': prop, 'origin': 'independent sub-agent given only the property record and a scratch worktree', 'needs_to_manifest': needs,
            'applies_to_repo_head': applies, 'repo_head': subprocess.run(['git', '-C', '/repo', 'rev-parse', '--short', 'HEAD'], capture_output=True, text=True).stdout.strip(),
            'demo': os.path.basename(demo), 'demo_cmd': demo_cmd, 'confirmation': {}}
    # 2. suite twice with the demo moved aside
    dp = os.path.join(wt, demo)
    os.rename(dp, dp + '.off')
    suite = []
    hung = []
    for i in range(2):
        # the suite has wall-clock dependent tests (tests/lib.rs::unpark) that hang on a loaded machine with or without
        # any change: a run that *hangs* (no failure reported, fewer results than expected) is repeated up to twice and
        # recorded; a run that reports a failure counts as it is
        for attempt in range(3):
            rc, o, dt = sh('timeout 900 cargo test --workspace --offline 2>&1 | grep -E "^test result|FAILED|failed|error\\[" ', wt)
            passed = sum(int(l.split('ok. ')[1].split(' passed')[0]) for l in o.splitlines() if l.startswith('test result: ok.'))
            failed = [l for l in o.splitlines() if 'FAILED' in l or 'error[' in l or ('failed' in l and '0 failed' not in l)]
            if passed >= 300 or failed:
                break
            hung.append({'run': i, 'attempt': attempt, 'passed_before_hang': passed, 'wall_s': round(dt, 1)})
        suite.append({'passed': passed, 'failed_lines': failed[:5], 'wall_s': round(dt, 1)})
    meta['confirmation']['suite_runs_that_hung'] = hung
    os.rename(dp + '.off', dp)
    meta['confirmation']['suite_with_change'] = suite
    # 3. demo with / without
    def demo_runs(n):
        res = []
        for i in range(n):
            rc, o, dt = sh(demo_cmd + ' 2>&1 | tail -15', wt, timeout=400)
            import re
            ok = bool(re.search(ok_re, o)) and 'FAILED' not in o
            res.append({'passed': ok, 'wall_s': round(dt, 1), 'tail': o.strip().splitlines()[-3:]})
        return res
    meta['confirmation']['demo_with_change'] = demo_runs(3)
    rc, o, _ = sh(f'git apply -R {out}/patch.diff', wt)
    assert rc == 0, o
    try:
        meta['confirmation']['demo_without_change'] = demo_runs(3)
    finally:
        rc, o, _ = sh(f'git apply {out}/patch.diff', wt)
        assert rc == 0, o
    shutil.copy(dp, out)
    for extra in ('REPORT.md',):
        if os.path.exists(os.path.join(wt, extra)):
            shutil.copy(os.path.join(wt, extra), out)
    w = meta['confirmation']
    meta['confirmed'] = bool(applies and all(s['passed'] >= 300 and not s['failed_lines'] for s in suite)
                             and not any(r['passed'] for r in w['demo_with_change']) and all(r['passed'] for r in w['demo_without_change']))
    json.dump(meta, open(f'{out}/meta.json', 'w'), indent=1)
    print(json.dumps({k: meta[k] for k in ('seed_id', 'confirmed', 'applies_to_repo_head')}), [s['passed'] for s in suite],
          [r['passed'] for r in w['demo_with_change']], [r['passed'] for r in w['demo_without_change']])


if __name__ == '__main__':
    main()
