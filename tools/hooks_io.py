# hook insertions for unix I/O (see addhook.py)
N = 'src/io/sys/unix/net/'
FILES = [
    ('socket_read.rs', 'READ'), ('socket_write.rs', 'WRITE'), ('socket_write_vectored.rs', 'WRITEV'),
    ('socket_peek.rs', 'PEEK'), ('tcp_listener_accept.rs', 'ACCEPT'), ('tcp_stream_connect.rs', 'CONNECT'),
    ('udp_recv_from.rs', 'UDP_RECV'), ('udp_send_to.rs', 'UDP_SEND'), ('unix_listener_accept.rs', 'UNIX_ACCEPT'),
    ('unix_recv_from.rs', 'UNIX_RECV'), ('unix_send_to.rs', 'UNIX_SEND'), ('unix_stream_connect.rs', 'UNIX_CONNECT'),
]
HOOKS = []
for f, x in FILES:
    HOOKS += [
        (N + f, 'if self.io_data.io_flag.load(Ordering::Relaxed) != 0 {', 1, 'before', f'IO_{x}_EAGAIN', '0'),
        (N + f, 'io_data.co.store(co);', 1, 'before', f'IO_{x}_SUB_ARMED', '0'),
        (N + f, 'io_data.co.store(co);', 1, 'after', f'IO_{x}_SUB_STORED', '0'),
    ]
E = 'src/io/sys/unix/epoll.rs'
M = 'src/io/sys/unix/mod.rs'
SAFE = "// it's safe to remove the timer since we are running the timer_list in the same thread"
HOOKS += [
    ('src/io/sys/unix/wait_io.rs', 'io_data.co.store(co);', 1, 'after', 'IO_WAITIO_SUB_STORED', '0'),
    (E, '// collect coroutines', 1, 'before', 'EP_AFTER_WAIT', 'id'),
    (E, '// first check the atomic co, this may be grab by the worker first', 1, 'before', 'EP_EVENT_FLAGGED', 'id'),
    (E, SAFE, 1, 'before', 'EP_EVENT_TOOK', 'id'),
    (E, '// deal with the timer list', 1, 'before', 'EP_BEFORE_TIMERS', 'id'),
    (E, 'if b_new {', 1, 'before', 'EP_ADD_TIMER_PUSHED', 'id'),
    (M, '// remove the event timer', 1, 'before', 'IO_TIMEOUT_HANDLER_ENTER', '0'),
    (M, '// get and check the coroutine', 1, 'before', 'IO_TIMEOUT_TIMER_TAKEN', '0'),
    (M, SAFE, 1, 'before', 'IO_SCHEDULE_TOOK', '0'),
    (M, SAFE, 2, 'before', 'IO_SCHEDULE_TOOK', '0'),
    ('src/io/sys/unix/cancel.rs', 'get_scheduler().schedule(co);', 1, 'before', 'IO_CANCEL_TOOK', '0'),
]
