#!/bin/bash
# seed_pipeline.sh <seed-id> <prop> <worktree> <demo-rel> <needs> <demo-cmd> <ok-regex> [extra props...]
# confirm + import + evaluate one seeded change; serialised through a lock because evaluation patches /repo
sid=$1; prop=$2; wt=$3; demo=$4; needs=$5; cmd=$6; okre=$7; shift 7
cd /verif
python3 tools/seed_confirm.py "$sid" "$prop" "$wt" "$demo" --needs "$needs" --demo-cmd "$cmd" --ok-regex "$okre" > /tmp/sp_$sid.log 2>&1
[ -f "$wt/REPORT.txt" ] && cp "$wt/REPORT.txt" "seeded/$sid/REPORT.txt"
(
  true
  python3 tools/seed_eval.py --isolated "$sid" "$@" >> /tmp/sp_$sid.log 2>&1
) 9>/tmp/seed_eval.lock
echo "pipeline done: $sid" >> /tmp/sp_$sid.log
