# hook insertions for sync primitives, channels, cqueue, scoped (see addhook.py)
B = 'src/sync/blocking.rs'
MU = 'src/sync/mutex.rs'
SE = 'src/sync/semphore.rs'
FL = 'src/sync/sync_flag.rs'
CV = 'src/sync/condvar.rs'
RW = 'src/sync/rwlock.rs'
CM = 'src/sync/mpsc.rs'
CS = 'src/sync/spsc.rs'
CX = 'src/sync/mpmc.rs'
CQ = 'src/cqueue.rs'
SC = 'src/scoped.rs'
S = 'self as *const _ as usize'
SU = 'self as *const Self as *const () as usize'  # Mutex<T: ?Sized> / RwLock<T: ?Sized>
HOOKS = [
    # ---- blocking.rs
    (B, 'self.unparked.store(true, Ordering::Release);', 1, 'before', 'SYNCBLOCKER_UNPARK_MID', S),
    (B, 'while *guard == 0 && result.is_ok() {', 1, 'before', 'THREADPARK_BEFORE_WAIT', S),
    (B, 'if *guard == 0 {', 1, 'before', 'THREADPARK_UNPARK_SWAPPED', S),
    # ---- mutex.rs
    (MU, "// inc the cnt, if it's the first grab, unpark the first waiter", 1, 'before', 'MUTEX_LOCK_PUSHED', SU),
    (MU, 'self.to_wake', 1, 'before', 'MUTEX_LOCK_COUNTED', SU),
    (MU, 'loop {', 1, 'before', 'MUTEX_LOCK_COUNTED', SU),
    (MU, 'self.to_wake', 2, 'before', 'MUTEX_UNLOCK_SUBBED', SU),
    (MU, 'w.unpark();', 1, 'after', 'MUTEX_UNPARKED', SU),
    (MU, '// check the unpark status', 1, 'before', 'MUTEX_CANCEL_CHECK', SU),
    (MU, '// re-check unpark status', 1, 'before', 'MUTEX_CANCEL_SETREL', SU),
    # ---- semphore.rs
    (SE, "// dec the cnt, if it's positive, unpark one waiter", 1, 'before', 'SEM_WAIT_PUSHED', S),
    (SE, 'self.wakeup_one();', 1, 'before', 'SEM_WAIT_SUBBED', S),
    (SE, 'match cur.park(dur) {', 1, 'before', 'SEM_WAIT_SUBBED', S),
    (SE, 'w.unpark();', 1, 'before', 'SEM_WAKEUP_POPPED', S),
    (SE, 'w.unpark();', 1, 'after', 'SEM_WAKE_UNPARKED', S),
    (SE, '// check the unpark status', 1, 'before', 'SEM_TIMEOUT_CHECK', S),
    (SE, '// re-check unpark status', 1, 'before', 'SEM_TIMEOUT_SETREL', S),
    (SE, 'assert!(cnt < isize::MAX);', 1, 'after', 'SEM_POST_ADDED', S),
    # ---- sync_flag.rs
    (FL, "// dec the cnt, if it's positive, unpark one waiter", 1, 'before', 'FLAG_WAIT_PUSHED', S),
    (FL, 'self.wakeup_all();', 1, 'before', 'FLAG_WAIT_SUBBED', S),
    (FL, 'match cur.park(dur) {', 1, 'before', 'FLAG_WAIT_SUBBED', S),
    (FL, 'w.unpark();', 1, 'before', 'FLAG_WAKE_POPPED', S),
    (FL, '// check the unpark status', 1, 'before', 'FLAG_TIMEOUT_CHECK', S),
    (FL, '// re-check unpark status', 1, 'before', 'FLAG_TIMEOUT_SETREL', S),
    (FL, 'self.cnt.store(isize::MAX, Ordering::SeqCst);', 1, 'after', 'FLAG_FIRE_STORED', S),
    # ---- condvar.rs
    (CV, '// unlock the mutex to let other continue', 1, 'before', 'CV_WAIT_PUSHED', S),
    (CV, 'mutex::unlock_mutex(lock);', 1, 'after', 'CV_WAIT_UNLOCKED', S),
    (CV, '// disable cancel panic', 1, 'before', 'CV_WAIT_WOKEN', S),
    (CV, '// check the unpark status', 1, 'before', 'CV_ERR_CHECK', S),
    (CV, '// re-check unpark status', 1, 'before', 'CV_ERR_SETREL', S),
    (CV, 'w.unpark();', 1, 'before', 'CV_NOTIFY_POPPED', S),
    (CV, 'w.unpark();', 1, 'after', 'CV_NOTIFY_UNPARKED', S),
    # ---- rwlock.rs
    (RW, 'match self', 1, 'before', 'RW_TRYLOCK_LOADED', SU),
    (RW, "// inc the cnt, if it's the first grab, unpark the first waiter", 1, 'before', 'RW_LOCK_PUSHED', SU),
    (RW, 'self.to_wake', 1, 'before', 'RW_LOCK_COUNTED', SU),
    (RW, 'match cur.park(None) {', 1, 'before', 'RW_LOCK_COUNTED', SU),
    (RW, 'self.to_wake', 2, 'before', 'RW_UNLOCK_SUBBED', SU),
    (RW, 'w.unpark();', 1, 'after', 'RW_UNPARKED', SU),
    (RW, '// check the unpark status', 1, 'before', 'RW_CANCEL_CHECK', SU),
    (RW, '// re-check unpark status', 1, 'before', 'RW_CANCEL_SETREL', SU),
    (RW, 'let mut r = self.rlock.lock().expect("rwlock read");', 1, 'after', 'RW_READ_GOT_RLOCK', SU),
    (RW, 'let mut r = self.rlock.lock().expect("rwlock read_unlock");', 1, 'after', 'RW_READ_UNLOCK_GOT_RLOCK', SU),
    # ---- sync/mpsc.rs
    (CM, 'self.queue.push(t);', 1, 'after', 'CH_MPSC_SEND_PUSHED', S),
    (CM, '// re-check the queue', 1, 'before', 'CH_MPSC_RECV_REGISTERED', S),
    (CM, 'if likely(self.channels.load(Ordering::Acquire) > 0) {', 1, 'before', 'CH_MPSC_TRY_EMPTY', S),
    (CM, 'match self.channels.fetch_sub(1, Ordering::AcqRel) {', 1, 'before', 'CH_MPSC_DROPCHAN_BEFORE', S),
    (CM, 'self.port_dropped.store(true, Ordering::Release);', 1, 'after', 'CH_MPSC_DROPPORT_FLAGGED', S),
    # ---- sync/spsc.rs
    (CS, 'self.queue.push(t);', 1, 'after', 'CH_SPSC_SEND_PUSHED', S),
    (CS, 'let park = Park::new(self);', 1, 'before', 'CH_SPSC_RECV_EMPTY', '0'),
    (CS, '// re-check the state, only clear once after resume', 1, 'before', 'CH_SPSC_SUB_STORED', '0'),
    (CS, 'self.wait_co.store(blocker);', 1, 'after', 'CH_SPSC_TRECV_STORED', '0'),
    (CS, 'self.channels.store(0, Ordering::Relaxed);', 1, 'after', 'CH_SPSC_DROPCHAN_ZEROED', S),
    # ---- sync/mpmc.rs
    (CX, 'self.queue.push(t);', 1, 'after', 'CH_MPMC_SEND_PUSHED', S),
    (CX, 'match dur {', 1, 'before', 'CH_MPMC_RECV_EMPTY', S),
    (CX, 'match self.queue.pop() {', 1, 'before', 'CH_MPMC_RECV_PERMIT', S),
    (CX, '// there is no tx port any more', 1, 'before', 'CH_MPMC_DROPTX_SUBBED', S),
    (CX, '// there is no receiver any more, clear the data', 1, 'before', 'CH_MPMC_DROPRX_SUBBED', S),
    # ---- cqueue.rs
    (CQ, 'if let Some(w) = self.cqueue.to_wake.take() {', 1, 'before', 'CQ_SEND_SUB_PUSHED', '0'),
    (CQ, 'self.cqueue.cnt.fetch_sub(1, Ordering::Relaxed);', 1, 'before', 'CQ_DROP_PUSHED', '0'),
    (CQ, 'self.cqueue.cnt.fetch_sub(1, Ordering::Relaxed);', 1, 'after', 'CQ_DROP_SUBBED', '0'),
    (CQ, 'if self.cnt.load(Ordering::Relaxed) == 0 {', 1, 'before', 'CQ_POLL_EMPTY', S),
    (CQ, '// re-check the queue', 1, 'before', 'CQ_POLL_REGISTERED', S),
    (CQ, 'run_coroutine(co);', 1, 'before', 'CQ_POLL_BOTTOM', '0'),
    (CQ, '// run the rest event', 1, 'before', 'CQ_DROP_CANCELLED', S),
    # ---- scoped.rs
    (SC, 'let res = handle.join();', 1, 'before', 'SCOPE_JOIN_BEFORE', '0'),
]
