"""Scratch evaluation environment: /tmp/ev/repo (a detached worktree of /repo's HEAD) driven by /tmp/ev/verif (a copy of
/verif's working tree whose '/repo' paths point at the worktree, with its own build cache). /repo itself is never touched.
Serialised by a lock file. Used by seed_eval.py --isolated and revert_sensitivity.py."""
import fcntl, os, subprocess

ROOT = os.path.dirname(os.path.dirname(os.path.abspath(__file__)))
EV = '/tmp/ev'


def sh(*a, **kw):
    return subprocess.run(a, capture_output=True, text=True, **kw)


class Env:
    def __enter__(self):
        os.makedirs(EV, exist_ok=True)
        self.lock = open(f'{EV}/lock', 'w')
        fcntl.flock(self.lock, fcntl.LOCK_EX)
        head = sh('git', '-C', '/repo', 'rev-parse', 'HEAD').stdout.strip()
        if not os.path.exists(f'{EV}/repo'):
            r = sh('git', '-C', '/repo', 'worktree', 'add', '--detach', f'{EV}/repo', head)
            assert r.returncode == 0, r.stderr
        self.clean()
        r = sh('git', '-C', f'{EV}/repo', 'checkout', '--detach', head)
        assert r.returncode == 0, r.stderr
        sh('rsync', '-a', '--delete', '--exclude', 'target', '--exclude', '.git', '--exclude', 'replays', '--exclude', 'evidence', '--exclude', '__pycache__',
           f'{ROOT}/', f'{EV}/verif/')
        os.makedirs(f'{EV}/verif/evidence', exist_ok=True)
        for f in ('check', 'qdriver.py', 'rt/Cargo.toml', 'q/Cargo.toml'):
            p = f'{EV}/verif/{f}'
            s = open(p).read().replace('/repo', f'{EV}/repo')
            open(p, 'w').write(s)
        self.repo, self.verif = f'{EV}/repo', f'{EV}/verif'
        return self

    def clean(self):
        sh('git', '-C', f'{EV}/repo', 'revert', '--abort')
        sh('git', '-C', f'{EV}/repo', 'reset', '--hard', 'HEAD')
        sh('git', '-C', f'{EV}/repo', 'checkout', '--', '.')

    def check(self, prop, seed='1', tier=None):
        env = dict(os.environ, VERIF_SEED=str(seed))
        cmd = [f'{self.verif}/check', prop] + (['--tier', tier] if tier else [])
        c = sh(*cmd, cwd=self.verif, env=env)
        lines = [l for l in c.stdout.splitlines() if l.startswith('VIOLATION') or l.startswith('KNOWN-FINDING') or (l.startswith('  ') and 'kind=' in l)]
        return c, lines

    def __exit__(self, *a):
        self.clean()
        fcntl.flock(self.lock, fcntl.LOCK_UN)
        self.lock.close()
