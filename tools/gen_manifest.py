#!/usr/bin/env python3
"""Generate /verif/MANIFEST.json from plans.py and the per-property texts below."""
import json
import os
import subprocess
import sys

ROOT = os.path.dirname(os.path.dirname(os.path.abspath(__file__)))
sys.path.insert(0, ROOT)
from plans import PLANS, LEVEL  # noqa: E402

NOT_READY = set(sys.argv[1:])  # property ids to list under not_applicable for now

TEXT = {
 'C01': ('spawn/join storms (thread, coroutine, nested, Builder name/stack/id, spawn_local, detached) with per-coroutine run counters, a running-flag per segment, '
         'finished-before-join checks, exact join results (value / panic payload / Cancel) and the hook-fed residency monitor (a coroutine is never resumed while '
         'resident on another OS thread); single-stall sweep over scheduler, queue, join and park windows; ASan lane for the detached cases Additions: fairness in logical steps (yieldspin / yieldspinio: a coroutine made ready from outside the workers runs although every worker is saturated by yielders; verdict = yields executed by every spinner after the waker returned), idle-spin livelock criterion, run-queue owner monitor, address-reuse lane for the run-queue blocks (ABA of the packed head word, D34), scheduler-variant lanes.',
         'runtime monitoring: event-log + residency monitor under hook-stall sweeps; ASan'),
 'C02': ('park / park_timeout / unpark sequences on fresh Blockers (thread and coroutine) and on the coroutine\'s own handle with 1-3 concurrent unparkers and timer expiry; '
         'no-lost-token = every park whose unpark was called after the previous return does return (quiescence oracle), Blocker honesty (Timeout never early, Ok only after an unpark call, never Canceled) Additions: fractional-ms time-outs (Timeout never before the deadline), directed shards over PARK_/CANCEL_/YIELD_ windows, no-hook stress (parkrace). FastBlocker rounds; fairness towards an unparked coroutine while the workers are saturated by yielders (yieldspin, verdict in yields executed).',
         'runtime monitoring: history oracle + quiescence oracle under hook-stall sweeps'),
 'C05': ('2-6 mixed thread/coroutine lockers with lock/try_lock, RAII occupancy counter, non-atomic payload invariant, completed-sections count, optional cancel of a waiter released at each hook window; '
         'end state: lock free, not poisoned; stranded lockers found by the quiescence oracle Additions: Condvar re-lock under cancel (relock, cvc) with occupancy checks, directed shards over MUTEX_/SYNCBLOCKER_/PARK_ windows with overtake plans, no-hook stress (hsmutex handshake, lockrace with 3-4 plain threads). Unlock past 40-2500 cancelled lockers on a default-stack coroutine (stale).',
         'runtime monitoring: occupancy/payload monitors + quiescence oracle under hook-stall sweeps; ASan'),
 'C06': ('mpsc/spsc/mpmc exchanges with unique values in drop-counting payloads, 1-4 senders/receivers (threads and coroutines), blocking/timed/polling receivers, > 1 queue block; '
         'exactly-once, nothing unsent, per-sender order per receiver, payload dropped exactly once, blocked receivers woken (quiescence oracle)',
         'runtime monitoring: exactly-once/order checker over recorded histories under hook-stall sweeps; ASan'),
 'C07': ('last-sender drop aimed into each receiver window (role-directed gate stalls at the try-receive / register / re-check hooks), 1-4 mpmc receivers, with and without queued values; '
         'every receiver drains then sees Disconnected (sticky), none hangs; receiver-drop variant: send fails with the same value, leftovers dropped exactly once Additions: no-hook stress with try_recv polling rounds, Disconnected never before the value that was sent ahead of the drop.',
         'runtime monitoring: disconnect-sequence checker + quiescence oracle under role-directed hook stalls'),
 'C08': ('timed waits of ten kinds (sleep, Blocker::park, Semphore/SyncFlag/Condvar wait_timeout, mpsc/mpmc recv_timeout, Cqueue::poll, park_timeout, long park released early) over duration classes '
         '0,1ns,999ns,1us,500us,999999ns,1ms,1ms+1ns,1.5ms,1.7ms,2.999ms,10ms,10.5ms + random, coroutine and thread context, timer mixes with stale heads; never early (real clock lower bound), '
         'always returns (quiescence), prompt only when unperturbed and calibrated; probe of known finding D2 Additions: a sleeper / timed waiter becomes ready while every worker is saturated by yielders (yieldspin).',
         'runtime monitoring: never-early / quiescence / calibrated promptness oracles under hook-stall sweeps; ASan'),
 'C09': ('cancel of a target blocked in 16 primitives (park, park_timeout, sleep, Mutex, RwLock read/write, Semphore wait/wait_timeout, SyncFlag, Condvar wait/wait_timeout, mpsc, mpmc, join, select!, Blocker) '
         'plus socket read/accept/recv_from, the cancel released at every hook window on the path of target and waker; join()==Err(Cancel) without hanging, stack-owned values dropped once, locks free and unpoisoned, '
         'permits conserved, bystanders complete Additions: cancelled reader (rwcr), cancel in the Condvar re-lock (relock), cancel of a timed socket operation on a shared socket (iocant).',
         'runtime monitoring: fault enumeration (cancel point x primitive x hook window) with drop counters and bystander oracles; ASan'),
 'C10': ('Semphore: prefix condition on the logical clock (successes returned <= init + posts called), final value == init + posts - successes, all waiters proceed when permits suffice, '
         'time-out / cancel colliding with post; SyncFlag: every waiter returns, is_fired never false after fire() returned (sampler actor) Additions: semaphore used as a lock by 3-4 parties (occupancy <= init), several concurrent firers, overtake plans over SEM_ windows, no-hook stress (hssem, semrace). post / fire past 40-2500 timed-out waiters on a default-stack coroutine (stale).',
         'runtime monitoring: conservation checker over recorded histories + quiescence oracle under hook-stall sweeps'),
 'C11': ('Condvar token protocol (tokens >= consumers, notify_one/notify_all, timed and cancelled waiters), mutex owned after wait; Barrier generations: exactly one leader, nobody released before n*g arrivals; '
         'WaitGroup: wait returns exactly after all other clones dropped Additions: give-up mode with exact token accounting (impatient consumers leave, a token left beside a sleeping patient consumer = lost notification), re-lock under cancel (relock), no-hook stress (cvrace). notify_one past 40-2500 timed-out waiters (stale); waits on a mutex that gets poisoned return holding it (cvpoison).',
         'runtime monitoring: token/generation monitors + quiescence oracle under hook-stall sweeps'),
 'C12': ('sequential random op sequences against a reference model (which of Ok / Poisoned(guard) / WouldBlock is allowed in which state, guard drops never panic, lock free afterwards) and concurrent readers/writers '
         'on clean and poisoned locks with (readers, writers) occupancy counters, cancelled writer waiters; probe of known finding D13 Additions: cancelled *reader* beside other readers, exclusion re-checked with fresh parties (rwcr); true release lane (no debug assertions); directed shards over RW_ windows. Write-unlock past cancelled writers on a default-stack coroutine (stale).',
         'runtime monitoring: reference-model monitor + occupancy monitor under hook-stall sweeps'),
 'C13': ('panic storms over a 4-stack pool: panics before/after yields, under Mutex and RwLock-write guards, in scope bodies with live children, in scoped children beside running siblings, in select arms, a cancelled lock holder; '
         'exact payloads at join, exact bystander results, no bystander ever sees thread::panicking(), pinned probes on every worker (alive, not panicking, poisoning works), poison-and-release / no poison on cancel Additions: detached panickers on the pooled stacks before the storm; select arm panic against a channel that never fires (no timing). Condvar waits on a mutex poisoned by the notifier (cvpoison).',
         'runtime monitoring: fault enumeration over panic points with bystander oracles under hook-stall sweeps; ASan'),
 'C14': ('scope / join! inside a select! arm / nested scopes with 1-6 children; owner faults (cancel released at each hook window, panic in the body, child panic); exit guard in the owner frame asserts no child running, '
         'children log steps after exit, canary in the owner frame (ASan: heap-use-after-free), panic propagation Additions: cqueue scopes whose arms carry a guard among their captures that must find the enclosing frame alive, also after another arm has panicked (cq, D37).',
         'runtime monitoring: fault enumeration (owner fault x hook window x child progress) with exit-guard monitor; ASan'),
 'C15': ('coroutine_local! keys with owner-tagged drop-counting values across yields/migrations; pool capacity 2 so successors provably reuse stacks whose previous occupant returned / panicked / was cancelled (park, sleep) / '
         'timed out / ran a select; successor must see initial values, run the initialiser, get Timeout (not Canceled, not early) from a fresh park, no inherited cancel; thread fallback per thread; drops exactly once Additions: predecessors = residue x ending (incl. a cancel taken by wait_io, user panic), successors\' first blocking call varies (timed park, plain unpark, contended lock), leaked local storage reported as such.',
         'runtime monitoring: ownership/initialiser/drop monitors + fresh-start probes under hook-stall sweeps; ASan'),
 'C16': ('one-shot select arms fired simultaneously or staggered, poll loops with repeated events, 2-3 ms poll time-outs, panicking arms, removed selectors, early scope exit; per arm tops/bottoms/delivered counts, '
         'bottom never before/without/twice, Finished only after all arms ended, Timeout never early, panic payload reaches the poller, nothing alive after the scope Additions: forever mode (poll(None) beside a silent live arm: only the wake-up of the panicking arm\'s final event ends it), directed shards over CQ_ windows incl. the count/registration window (D30), no-hook stress (cqrace). A removed arm followed by the real panic of another arm; a guard among the captures of each arm that must find the enclosing frame alive (D37).',
         'runtime monitoring: per-arm event accounting under hook-stall sweeps; ASan'),
 'C17': ('real sockets and real epoll: unix-stream and loopback TCP (v4/v6) one-way transfers and accept/connect/echo with split read/write halves, 0..600 KB payloads, random chunking incl. write_vectored, '
         'random buffer sizes, small SO_SNDBUF, coroutine and thread callers; UDP/unix datagram boundaries; stream equality, EOF only at end, stranded I/O judged with the kernel view (poll/FIONREAD); probe of known finding D14 Additions: descriptor churn (sessions closing and opening sockets at once, refused connects; descriptor numbers reused across threads), the shapes of may\'s own unix-socket tests, 16-worker shards in the thorough tier. split() full duplex, peek, CoIo, wait_io (ioext); readiness while the workers are saturated by yielders (yieldspinio); timer-list contract monitor (an io timer entry is unlinked by its selector thread only, D36).',
         'runtime monitoring: byte-stream/datagram checker + kernel-view readiness oracle under hook-stall sweeps; ASan'),
 'C18': ('timed read sequences (500us..5ms) with arrivals at d/4, d-150us, d+300us, never, on unix and TCP streams: time-out never early also for later operations, data in time is delivered, socket usable afterwards; '
         'cancel of coroutines blocked in read/accept/recv_from released at each hook window: Err(Cancel), peer sees close, bystander transfer intact; probe of the I/O sibling of D2 Additions: cancel of a timed operation on a socket that lives on, followed by timed operations before and after the stale deadline (iocant); the I/O sibling of D2 is repaired, its probe stays as a regression probe; cancel of seven receive-side calls, a cancelled target that is still suspended at quiescence is a violation whatever the kernel view; connect_timeout against a full accept queue (ioext); timed request/answer stress (iotrace); io time-out while the workers are saturated by yielders; timer-list contract monitor (D36).',
         'runtime monitoring: timed-I/O oracle + cancel fault injection under hook-stall sweeps; ASan'),
 'C03': ('may_queue mpsc/spsc block queues on plain threads: histories with unique values and logical call/return stamps checked for the four queue anomalies (fresh, repeat, order, empty), len bounds, '
         'drop-exactly-once at queue drop; role-directed stalls in the reserve/write/publish and block-boundary windows; native + ASan + Miri memory mode (+ Miri race mode and TSan for mpsc) Additions: native-reuse lane (recycled blocks).',
         'runtime monitoring: queue-anomaly checker over recorded histories; Miri, ASan, TSan'),
 'C04': ('may_queue spmc work-stealing queue: owner push/pop vs 1-4 stealers (steal_into, pop, bulk_pop): multiset(taken)==multiset(pushed), owner/batch order, over-claiming takers complete after flush pushes; '
         'stale-head (ABA) stalls; native + ASan + Miri memory mode Additions: native-reuse lane (LIFO address-reuse allocator, ABA on the packed head word), every-hit micro-stalls, hook between the two stores of push.',
         'runtime monitoring: exactly-once/batch-order checker over recorded histories; Miri, ASan'),
 'C19': ('mpsc_list_v1 timer entry list: sequential model test (VecDeque reference incl. is_head, remove-of-last no-op) and concurrent producers vs the single consumer (pop, pop_if, peek, remove): '
         'each entry consumed exactly once, order, is_head two-sided bounds; native + ASan + Miri memory mode; end-to-end through the TimerThread in C08 Additions: head-report protocol (the token protocol TimeOutList builds on is_head; exact oracle), list dropped before its handles, native-reuse lane.',
         'runtime monitoring: reference-model + exactly-once checker over recorded histories; Miri, ASan'),
}

NOTE = ('held on the executions driven only; trusted base: the harness oracles (validated on std primitives / hand-made bad histories, DESIGN §7), the hook module '
        '(add-only, cfg may_verif), rustc/LLVM sanitizer runtimes, the Linux scheduler/epoll; x86-64 only')


def main():
    repo_commits = subprocess.run(['git', '-C', '/repo', 'log', '--format=%h %s', '--grep=^verif:'], capture_output=True, text=True).stdout.strip().splitlines()
    checks, na = [], []
    for p in sorted(PLANS):
        if p in NOT_READY:
            na.append({'property_id': p, 'reason': 'check under construction in this session (queue harness); no verdict is claimed yet'})
            continue
        checks.append({
            'property_id': p,
            'quick_cmd': f'./check {p} --tier quick',
            'thorough_cmd': f'./check {p} --tier thorough',
            'evidence_file': f'/verif/evidence/{p}.json',
            'replay_cmd_template': './check --replay {path}',
            'engine': 'q' if PLANS[p].get('engine') == 'q' else 'rt',
            'level_claimed': {'category': LEVEL[p], 'text': TEXT[p][0], 'design_ref': f'DESIGN.md §4 {p}'},
            'level_note': NOTE,
            'technique': TEXT[p][1],
        })
    m = {
        'version': 1,
        'setup_cmd': './check --setup',
        'hooks': {
            'guard': 'may_verif',
            'enable': 'RUSTFLAGS="--cfg may_verif" (cargo:rustc-check-cfg declared in both build.rs); hook = may_queue::verif::point(site, obj), installed by the harness with may_queue::verif::set_hook',
            'baseline_off_cmd': 'cd /repo && cargo test --workspace --no-fail-fast --offline',
            'source_commits': [c.split()[0] for c in repo_commits],
            'add_only': True,
        },
        'engines': [
            {'name': 'rt', 'path': '/verif/rt', 'serves_properties': [p for p in sorted(PLANS) if PLANS[p].get('engine') != 'q'],
             'kind_free_text': 'scenario runner on the real may runtime: hook-stall planner, event log, quiescence/livelock oracle, residency monitor; plain and ASan lanes'},
            {'name': 'q', 'path': '/verif/q', 'serves_properties': ['C03', 'C04', 'C19'],
             'kind_free_text': 'may_queue history recorder + offline checkers on plain threads; native, ASan, TSan (mpsc) and Miri lanes'},
            {'name': 'check', 'path': '/verif/check', 'serves_properties': sorted(PLANS),
             'kind_free_text': 'Python driver: builds lanes from /repo working tree, fans out shards, merges, matches known_findings.json, writes evidence and replay files'},
        ],
        'checks': checks,
        'notes': 'Family: runtime monitoring and sanitizers. Genuine defects found are either repaired by fix: commits in /repo or listed in /verif/known_findings.json (see DESIGN.md §5).',
        'not_applicable': na,
    }
    json.dump(m, open(os.path.join(ROOT, 'MANIFEST.json'), 'w'), indent=1)
    print(f'MANIFEST.json: {len(checks)} checks, {len(na)} not_applicable')


if __name__ == '__main__':
    main()
