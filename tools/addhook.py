#!/usr/bin/env python3
"""Insert `#[cfg(may_verif)]` hook lines into /repo sources (add-only).

Usage: addhook.py <spec.py> [--root /repo]
The spec file defines HOOKS = [(file, anchor, occurrence, where, SITE, obj), ...]
  anchor      the complete source line (compared after stripping whitespace)
  occurrence  1-based index among the lines containing the anchor
  where       'after' | 'before'  (relative to the anchor line)
  SITE        constant name in may_queue::verif::site
  obj         rust expression for the obj argument (usize) or '0'
Lines are only added, never rewritten; a hook already present is skipped.
"""
import sys, os, importlib.util

def main():
    spec_path = sys.argv[1]
    root = '/repo'
    if '--root' in sys.argv:
        root = sys.argv[sys.argv.index('--root') + 1]
    spec = importlib.util.spec_from_file_location('spec', spec_path)
    mod = importlib.util.module_from_spec(spec)
    spec.loader.exec_module(mod)
    byfile = {}
    for h in mod.HOOKS:
        byfile.setdefault(h[0], []).append(h)
    for f, hooks in byfile.items():
        path = os.path.join(root, f)
        lines = open(path).read().split('\n')
        prefix = 'crate::verif' if f.startswith('may_queue/') else 'may_queue::verif'
        # resolve all anchors on the original text first, then insert bottom-up
        todo = []
        for (_, anchor, occ, where, site, obj) in hooks:
            call = f'{prefix}::point({prefix}::site::{site}, {obj});'
            if any(call in l for l in lines):
                continue
            idx = [i for i, l in enumerate(lines) if anchor == l.strip()]
            if len(idx) < occ:
                sys.exit(f'{f}: anchor {anchor!r} occurrence {occ} not found ({len(idx)} matches)')
            i = idx[occ - 1]
            indent = lines[i][:len(lines[i]) - len(lines[i].lstrip())]
            if where == 'after' and lines[i].rstrip().endswith('{'):
                indent += '    '
            todo.append((i if where == 'before' else i + 1, indent, call))
        for pos, indent, call in sorted(todo, key=lambda t: -t[0]):
            lines[pos:pos] = [indent + '#[cfg(may_verif)]', indent + call]
        open(path, 'w').write('\n'.join(lines))
        print(f'{f}: {len(todo)} hooks added')

if __name__ == '__main__':
    main()
