# hook insertions for may_queue (see addhook.py for the tuple format)
M = 'may_queue/src/mpsc.rs'
S = 'may_queue/src/spsc.rs'
W = 'may_queue/src/spmc.rs'
L = 'may_queue/src/mpsc_list_v1.rs'
Q = 'self as *const _ as usize'
HOOKS = [
    # ---- mpsc block queue
    (M, '// set the data', 1, 'before', 'MPSC_PUSH_RESERVED', Q),
    (M, 'block.set(id, v);', 1, 'after', 'MPSC_PUSH_WRITTEN', Q),
    (M, 'let next_block = unsafe { &mut *block.wait_next_block() };', 1, 'before', 'MPSC_PUSH_BOUNDARY', Q),
    (M, 'self.tail.0.store(next_block, Ordering::Release);', 1, 'before', 'MPSC_PUSH_BOUNDARY_LINKED', Q),
    (M, 'if pop_index >= self.push_index() {', 1, 'before', 'MPSC_POP_EMPTYCHECK', Q),
    (M, 'let next_block = head.wait_next_block();', 1, 'before', 'MPSC_POP_BOUNDARY', Q),
    (M, 'let new_index = index + value.len();', 1, 'before', 'MPSC_BULK_FAST_END', Q),
    (M, 'let push_index = self.push_index();', 1, 'before', 'MPSC_BULK_SLOW', Q),
    # ---- spsc block queue
    (S, 'tail.set(push_index, v);', 1, 'after', 'SPSC_PUSH_WRITTEN', Q),
    (S, 'tail.next.store(new_tail, Ordering::Relaxed);', 1, 'before', 'SPSC_PUSH_NEWBLOCK', Q),
    (S, 'let mut last_head = unsafe { &mut *self.last_head.unsync_load() };', 1, 'after', 'SPSC_ALLOC_NODE', Q),
    (S, '// get the data', 1, 'before', 'SPSC_POP_LOADED', Q),
    (S, 'let new_head = head.next.load(Ordering::Relaxed);', 1, 'before', 'SPSC_POP_BOUNDARY', Q),
    (S, '// only pop within a block', 1, 'before', 'SPSC_BULK_LOADED', Q),
    # ---- spmc work stealing queue
    (W, 'std::sync::atomic::fence(Ordering::Release);', 1, 'after', 'SPMC_PUSH_WRITTEN', Q),
    (W, 'tail.next.store(new_tail, Ordering::Release);', 1, 'before', 'SPMC_PUSH_NEWBLOCK', Q),
    # pop
    (W, '// commit the pop', 1, 'before', 'SPMC_POP_LOADED', Q),
    (W, 'let block_start = block.start.load(Ordering::Relaxed);', 1, 'before', 'SPMC_POP_CLAIMED', Q),
    (W, 'push_index = self.tail.index.load(Ordering::Acquire);', 1, 'before', 'SPMC_POP_LAST', Q),
    (W, 'let v = block.get(id);', 1, 'after', 'SPMC_POP_READ', Q),
    # local_pop
    (W, '// commit the pop', 2, 'before', 'SPMC_LPOP_LOADED', Q),
    (W, 'let block_start = block.start.load(Ordering::Relaxed);', 2, 'before', 'SPMC_LPOP_CLAIMED', Q),
    (W, '// we need to check if there is enough data', 2, 'before', 'SPMC_LPOP_LAST', Q),
    (W, '// advance the push index and this slot is ignored', 1, 'before', 'SPMC_LPOP_SKIP', Q),
    # bulk_pop
    (W, '// only pop within a block', 1, 'before', 'SPMC_BULK_LOADED', Q),
    (W, 'let block_start = block.start.load(Ordering::Relaxed);', 3, 'before', 'SPMC_BULK_CLAIMED', Q),
    (W, 'push_index = self.tail.index.load(Ordering::Acquire);', 3, 'before', 'SPMC_BULK_LAST', Q),
    (W, 'let value = block.copy_to_bulk(pop_index, end);', 1, 'after', 'SPMC_BULK_READ', Q),
    # ---- mpsc_list_v1 (timer entry list)
    (L, '(*node).prev = prev;', 1, 'before', 'LIST_PUSH_SWAPPED', Q),
    (L, 'let tail = *self.tail.get();', 1, 'before', 'LIST_PUSH_LINKED', Q),
    (L, 'let v = (*next).value.as_ref().unwrap();', 1, 'before', 'LIST_POPIF_PEEKED', Q),
    (L, '// spin until tail next become non-null', 3, 'before', 'LIST_POP_WAIT_NEXT', Q),
    (L, '(*next).prev = ptr::null_mut();', 2, 'before', 'LIST_POP_NEXT', Q),
    (L, '// clear the link bit', 1, 'before', 'LIST_REMOVE_BEFORE_UNLINK', '0'),
    (L, 'let ret = node.value.take();', 1, 'before', 'LIST_REMOVE_UNLINKED', '0'),
]
