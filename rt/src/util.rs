//! Shared machinery: PRNG, logical clock + event log, actors, quiescence/livelock oracle,
//! drop-counting payloads, JSON helpers.

use crate::hook;
use std::sync::atomic::{AtomicBool, AtomicU32, AtomicU64, AtomicUsize, Ordering::*};
use std::sync::{Arc, Mutex};
use std::time::{Duration, Instant};

// ------------------------------------------------------------------ PRNG (splitmix64)
#[derive(Clone)]
pub struct Rng(pub u64);
impl Rng {
    pub fn new(seed: u64) -> Rng {
        Rng(seed.wrapping_mul(0x9E3779B97F4A7C15) ^ 0xD1B54A32D192ED03)
    }
    pub fn next(&mut self) -> u64 {
        self.0 = self.0.wrapping_add(0x9E3779B97F4A7C15);
        let mut z = self.0;
        z = (z ^ (z >> 30)).wrapping_mul(0xBF58476D1CE4E5B9);
        z = (z ^ (z >> 27)).wrapping_mul(0x94D049BB133111EB);
        z ^ (z >> 31)
    }
    pub fn below(&mut self, n: u64) -> u64 {
        if n == 0 {
            0
        } else {
            self.next() % n
        }
    }
    pub fn range(&mut self, lo: u64, hi: u64) -> u64 {
        lo + self.below(hi - lo + 1)
    }
    pub fn chance(&mut self, num: u64, den: u64) -> bool {
        self.below(den) < num
    }
    pub fn pick<'a, T>(&mut self, v: &'a [T]) -> &'a T {
        &v[self.below(v.len() as u64) as usize]
    }
    pub fn fork(&mut self) -> Rng {
        Rng::new(self.next())
    }
}

// ------------------------------------------------------------------ verdicts
#[derive(Debug, Clone)]
pub enum Fail {
    /// an oracle over observed events was violated
    Violation(String),
    /// quiescent (nothing runnable, no stimulus pending) with open calls
    Stranded(String),
    /// actors made no progress over > 10^6 hook hits
    Livelock(String),
    /// watchdog fired without quiescence: says nothing about the property
    Inconclusive(String),
    /// a wall-clock lateness beyond the calibrated bound: only a verdict if it recurs in every immediate re-run of the
    /// same instance (main turns it into Violation or Inconclusive); a loaded machine produces one-off latenesses
    Suspect(String),
}
pub type Res = Result<(), Fail>;
pub fn viol<T>(s: impl Into<String>) -> Result<T, Fail> {
    Err(Fail::Violation(s.into()))
}
impl Fail {
    pub fn kind(&self) -> &'static str {
        match self {
            Fail::Violation(_) => "violation",
            Fail::Stranded(_) => "stranded",
            Fail::Livelock(_) => "livelock",
            Fail::Inconclusive(_) => "inconclusive",
            Fail::Suspect(_) => "suspect",
        }
    }
    pub fn msg(&self) -> &str {
        match self {
            Fail::Violation(s) | Fail::Stranded(s) | Fail::Livelock(s) | Fail::Inconclusive(s) | Fail::Suspect(s) => s,
        }
    }
}

// ------------------------------------------------------------------ event log
#[derive(Clone, Debug)]
pub struct Ev {
    pub stamp: u64,
    pub actor: u16,
    /// 'c' call, 'r' return, 'n' note
    pub kind: u8,
    pub op: &'static str,
    pub a: u64,
    pub b: u64,
}

pub struct Log {
    pub clock: AtomicU64,
    pub ev: Mutex<Vec<Ev>>,
    /// more than `LOG_CAP` events: recording stopped (a polling actor that never sees its exit condition would otherwise
    /// fill the memory of the machine within a minute), the execution ends as inconclusive
    pub overflow: AtomicBool,
}
pub const LOG_CAP: usize = 4_000_000;
impl Log {
    pub fn new() -> Arc<Log> {
        Arc::new(Log { clock: AtomicU64::new(1), ev: Mutex::new(Vec::with_capacity(256)), overflow: AtomicBool::new(false) })
    }
    pub fn stamp(&self) -> u64 {
        self.clock.fetch_add(1, SeqCst)
    }
    pub fn push(&self, actor: u16, kind: u8, op: &'static str, a: u64, b: u64) -> u64 {
        let stamp = self.stamp();
        hook::PROGRESS.fetch_add(1, Relaxed);
        let mut g = self.ev.lock().unwrap_or_else(|e| e.into_inner());
        if g.len() < LOG_CAP {
            g.push(Ev { stamp, actor, kind, op, a, b });
        } else {
            self.overflow.store(true, Relaxed);
        }
        stamp
    }
    pub fn snapshot(&self) -> Vec<Ev> {
        let mut v = self.ev.lock().unwrap_or_else(|e| e.into_inner()).clone();
        v.sort_by_key(|e| e.stamp);
        v
    }
    pub fn len(&self) -> usize {
        self.ev.lock().unwrap_or_else(|e| e.into_inner()).len()
    }
}

pub fn render_events(ev: &[Ev], names: &[String], max: usize) -> Vec<String> {
    let start = ev.len().saturating_sub(max);
    ev[start..]
        .iter()
        .map(|e| {
            let k = match e.kind {
                b'c' => "call",
                b'r' => "ret",
                _ => "note",
            };
            format!("#{} {} {} {}({:#x},{:#x})", e.stamp, names.get(e.actor as usize).map(|s| s.as_str()).unwrap_or("?"), k, e.op, e.a, e.b)
        })
        .collect()
}

// ------------------------------------------------------------------ actors
pub struct ActorState {
    pub name: String,
    pub is_co: bool,
    pub open: Mutex<Option<(&'static str, u64, u64)>>,
    pub done: AtomicBool,
    pub unwound: AtomicBool,
}

#[derive(Clone)]
pub struct Actor {
    pub id: u16,
    pub log: Arc<Log>,
    pub st: Arc<ActorState>,
}
impl Actor {
    /// record the call event before invoking
    pub fn call(&self, op: &'static str, a: u64) -> u64 {
        let s = self.log.push(self.id, b'c', op, a, 0);
        *self.st.open.lock().unwrap_or_else(|e| e.into_inner()) = Some((op, a, s));
        s
    }
    /// record the return event after the call returned
    pub fn ret(&self, op: &'static str, a: u64, b: u64) -> u64 {
        *self.st.open.lock().unwrap_or_else(|e| e.into_inner()) = None;
        self.log.push(self.id, b'r', op, a, b)
    }
    pub fn note(&self, op: &'static str, a: u64, b: u64) -> u64 {
        self.log.push(self.id, b'n', op, a, b)
    }
    pub fn is_co(&self) -> bool {
        self.st.is_co
    }
}

struct DoneGuard(Arc<ActorState>, Arc<AtomicUsize>);
impl Drop for DoneGuard {
    fn drop(&mut self) {
        if std::thread::panicking() {
            self.0.unwound.store(true, SeqCst);
        }
        self.0.done.store(true, SeqCst);
        self.1.fetch_add(1, SeqCst);
        hook::PROGRESS.fetch_add(1, Relaxed);
    }
}

pub struct Exec {
    pub seed: u64,
    pub rng: Rng,
    pub workers: usize,
    pub thorough: bool,
    /// a stall plan / noise is active: promptness (lateness) oracles are disabled
    pub perturbed: bool,
    pub log: Arc<Log>,
    pub actors: Vec<Arc<ActorState>>,
    pub done: Arc<AtomicUsize>,
    pub co_handles: Vec<may::coroutine::JoinHandle<()>>,
    pub th_handles: Vec<std::thread::JoinHandle<()>>,
    /// largest timeout the scenario has outstanding: the quiescence window must exceed it
    pub max_wait: Duration,
    /// free-form description of the generated scenario instance (goes into samples / replay)
    pub desc: String,
    /// the smallest timed wait used (µs); drives the D2 clamp
    pub min_timeout_us: u64,
    pub start: Instant,
}

pub fn gettid() -> i64 {
    unsafe { libc::syscall(libc::SYS_gettid) as i64 }
}

/// states of all OS threads of this process except the caller
pub fn thread_states() -> String {
    let me = gettid();
    let mut s = String::new();
    if let Ok(rd) = std::fs::read_dir("/proc/self/task") {
        for e in rd.flatten() {
            let tid: i64 = e.file_name().to_string_lossy().parse().unwrap_or(0);
            if tid == me {
                continue;
            }
            if let Ok(t) = std::fs::read_to_string(e.path().join("stat")) {
                if let Some(rest) = t.rsplit(')').next() {
                    s.push(rest.trim().chars().next().unwrap_or('?'));
                }
            }
        }
    }
    s
}

impl Exec {
    pub fn new(seed: u64, workers: usize, thorough: bool, perturbed: bool) -> Exec {
        Exec {
            seed,
            rng: Rng::new(seed),
            workers,
            thorough,
            perturbed,
            log: Log::new(),
            actors: Vec::new(),
            done: Arc::new(AtomicUsize::new(0)),
            co_handles: Vec::new(),
            th_handles: Vec::new(),
            max_wait: Duration::from_millis(0),
            desc: String::new(),
            min_timeout_us: u64::MAX,
            start: Instant::now(),
        }
    }

    pub fn timeout_used(&mut self, d: Duration) {
        if d > self.max_wait {
            self.max_wait = d;
        }
        let us = d.as_micros() as u64;
        if us < self.min_timeout_us {
            self.min_timeout_us = us;
        }
    }

    /// a socket time-out is in use. While D2io (a stall >= d between arming the I/O timer and storing the coroutine
    /// loses the time-out) was a known finding the general sweeps stayed below d/3 inside that window
    /// (`hook::ARMED_CLAMP_US`); since its repair the window is stalled like any other
    pub fn io_timeout_used(&mut self, d: Duration) {
        self.timeout_used(d);
    }

    fn new_actor(&mut self, name: &str, is_co: bool) -> (Actor, DoneGuard) {
        let st = Arc::new(ActorState {
            name: name.to_string(),
            is_co,
            open: Mutex::new(None),
            done: AtomicBool::new(false),
            unwound: AtomicBool::new(false),
        });
        let id = self.actors.len() as u16;
        self.actors.push(st.clone());
        (Actor { id, log: self.log.clone(), st: st.clone() }, DoneGuard(st, self.done.clone()))
    }

    /// an actor that is not run by the harness (e.g. the main thread acting as canceller)
    pub fn passive_actor(&mut self, name: &str) -> Actor {
        let (a, g) = self.new_actor(name, false);
        drop(g);
        a
    }

    /// spawn an actor as a coroutine (`is_co`) or a plain thread. A coroutine actor may block only
    /// through may's own APIs. Returns the actor index; the coroutine handle (if any) is kept in
    /// `co_handles` until the execution ends (so nothing is detached by accident).
    pub fn spawn<F>(&mut self, name: &str, is_co: bool, f: F) -> usize
    where
        F: FnOnce(&Actor) + Send + 'static,
    {
        let (a, g) = self.new_actor(name, is_co);
        let idx = a.id as usize;
        if is_co {
            let h = unsafe {
                may::coroutine::spawn(move || {
                    let _g = g;
                    f(&a);
                })
            };
            self.co_handles.push(h);
        } else {
            let h = std::thread::spawn(move || {
                let _g = g;
                f(&a);
            });
            self.th_handles.push(h);
        }
        idx
    }

    /// like spawn(is_co = true) but hands the JoinHandle to the caller
    pub fn spawn_co<F>(&mut self, name: &str, f: F) -> (usize, may::coroutine::JoinHandle<()>)
    where
        F: FnOnce(&Actor) + Send + 'static,
    {
        let (a, g) = self.new_actor(name, true);
        let idx = a.id as usize;
        let h = unsafe {
            may::coroutine::spawn(move || {
                let _g = g;
                f(&a);
            })
        };
        (idx, h)
    }

    /// coroutine actor pinned to one worker (`Builder::id`)
    pub fn spawn_pinned<F>(&mut self, name: &str, worker: usize, f: F) -> usize
    where
        F: FnOnce(&Actor) + Send + 'static,
    {
        let (a, g) = self.new_actor(name, true);
        let idx = a.id as usize;
        let h = unsafe {
            may::coroutine::Builder::new()
                .id(worker)
                .spawn(move || {
                    let _g = g;
                    f(&a);
                })
                .unwrap()
        };
        self.co_handles.push(h);
        idx
    }

    pub fn names(&self) -> Vec<String> {
        self.actors.iter().map(|a| a.name.clone()).collect()
    }

    pub fn open_calls(&self) -> Vec<String> {
        let mut v = Vec::new();
        for a in &self.actors {
            if a.done.load(SeqCst) {
                continue;
            }
            let o = a.open.lock().unwrap_or_else(|e| e.into_inner()).clone();
            match o {
                Some((op, arg, s)) => v.push(format!("{}[{}]: {}({:#x}) open since #{}", a.name, if a.is_co { "co" } else { "thread" }, op, arg, s)),
                None => v.push(format!("{}[{}]: running / between calls", a.name, if a.is_co { "co" } else { "thread" })),
            }
        }
        v
    }

    /// wait until every actor is done. Quiescence oracle (DESIGN §3.6).
    pub fn wait_all(&mut self) -> Res {
        let n = self.actors.len();
        let done = self.done.clone();
        self.wait_cond(&move || done.load(SeqCst) >= n)
    }

    /// wait until `cond` holds; stranded / livelock / inconclusive otherwise
    pub fn wait_cond(&mut self, cond: &dyn Fn() -> bool) -> Res {
        let t0 = Instant::now();
        let q = (self.max_wait + Duration::from_millis(700)).max(Duration::from_millis(if self.thorough { 2500 } else { 1200 }));
        let hard_cap = Duration::from_secs(if self.thorough { 60 } else { 25 }) + self.max_wait;
        let mut last_progress = hook::PROGRESS.load(Relaxed);
        let mut last_events = self.log.clock.load(Relaxed);
        let mut hits_at_last_event = last_progress;
        let mut pop_none_at_last_progress = hook::POP_NONE.load(Relaxed);
        let mut quiet_since = Instant::now();
        let mut next_sample = Duration::from_millis(150);
        let mut spins = 0u32;
        loop {
            if cond() {
                return Ok(());
            }
            spins += 1;
            if spins < 200 {
                std::thread::sleep(Duration::from_micros(50));
            } else {
                std::thread::sleep(Duration::from_micros(500));
            }
            let el = t0.elapsed();
            if el < next_sample {
                continue;
            }
            next_sample = el + Duration::from_millis(40);
            let p = hook::PROGRESS.load(Relaxed);
            let evs = self.log.clock.load(Relaxed);
            let states = thread_states();
            let stalling = hook::STALLING.load(SeqCst);
            if evs != last_events {
                last_events = evs;
                hits_at_last_event = p;
            }
            let quiet = p == last_progress && stalling == 0 && states.chars().all(|c| c == 'S');
            if p != last_progress {
                pop_none_at_last_progress = hook::POP_NONE.load(Relaxed);
            }
            last_progress = p;
            if !quiet {
                quiet_since = Instant::now();
            } else if quiet_since.elapsed() >= q {
                if cond() {
                    return Ok(());
                }
                return Err(Fail::Stranded(format!(
                    "quiescent for {:?} (no event, no hook hit, no stall in progress, all {} other OS threads asleep '{}') with open calls: {:?}",
                    q,
                    states.len(),
                    states,
                    self.open_calls()
                )));
            }
            if self.log.overflow.load(Relaxed) {
                return Err(Fail::Inconclusive(format!(
                    "runaway execution: more than {} API events without completing (threads '{}'); open calls: {:?}",
                    LOG_CAP,
                    states,
                    self.open_calls()
                )));
            }
            if el > hard_cap {
                let idle_spins = hook::POP_NONE.load(Relaxed).saturating_sub(pop_none_at_last_progress);
                if idle_spins > 2_000_000 {
                    return Err(Fail::Livelock(format!(
                        "a worker went through its scheduling loop {} times without finding anything to run and without sleeping, while nothing else made progress (threads '{}'); open calls: {:?}",
                        idle_spins,
                        states,
                        self.open_calls()
                    )));
                }
                let spun = p.saturating_sub(hits_at_last_event);
                if spun > 1_000_000 {
                    return Err(Fail::Livelock(format!(
                        "no API event while {} hook hits were executed (threads '{}'); open calls: {:?}",
                        spun,
                        states,
                        self.open_calls()
                    )));
                }
                return Err(Fail::Inconclusive(format!(
                    "watchdog {:?} without quiescence (threads '{}', {} hook hits since last event); open calls: {:?}",
                    hard_cap,
                    states,
                    spun,
                    self.open_calls()
                )));
            }
        }
    }

    /// join everything that finished (called by the runner after a successful execution). The join
    /// itself is under the quiescence oracle too: an actor whose body has ended but whose handle
    /// never reports completion is a stranded join, not a harness hang.
    pub fn finish(&mut self) -> Res {
        let th: Vec<std::thread::JoinHandle<()>> = self.th_handles.drain(..).collect();
        let co: Vec<may::coroutine::JoinHandle<()>> = self.co_handles.drain(..).collect();
        let r = {
            let (th, co) = (&th, &co);
            self.wait_cond(&|| th.iter().all(|h| h.is_finished()) && co.iter().all(|h| h.is_done()))
        };
        if let Err(e) = r {
            let nco = co.iter().filter(|h| !h.is_done()).count();
            let nth = th.iter().filter(|h| !h.is_finished()).count();
            std::mem::forget(th);
            std::mem::forget(co);
            return Err(match e {
                Fail::Stranded(m) => Fail::Stranded(format!("every actor body has ended but {} coroutine handle(s) never report is_done() and {} thread(s) never finish; {}", nco, nth, m)),
                o => o,
            });
        }
        for h in th {
            let _ = h.join();
        }
        for h in co {
            let _ = h.join();
        }
        Ok(())
    }
}

// ------------------------------------------------------------------ drop counting payloads
pub struct DropReg {
    pub counts: Vec<AtomicU32>,
}
impl DropReg {
    pub fn new(n: usize) -> Arc<DropReg> {
        Arc::new(DropReg { counts: (0..n).map(|_| AtomicU32::new(0)).collect() })
    }
    pub fn count(&self, id: usize) -> u32 {
        self.counts[id].load(SeqCst)
    }
}
pub struct Tracked {
    pub id: usize,
    pub val: Box<u64>,
    reg: Arc<DropReg>,
}
impl Tracked {
    pub fn new(reg: &Arc<DropReg>, id: usize) -> Tracked {
        Tracked { id, val: Box::new(id as u64 ^ 0xA5A5_5A5A), reg: reg.clone() }
    }
    pub fn ok(&self) -> bool {
        *self.val == self.id as u64 ^ 0xA5A5_5A5A
    }
}
impl Drop for Tracked {
    fn drop(&mut self) {
        self.reg.counts[self.id].fetch_add(1, SeqCst);
    }
}

/// RAII occupancy counter: `enter` returns the previous value, the guard decrements on drop
/// (also when a cancel unwinds out of the critical section)
pub struct Occ(pub Arc<std::sync::atomic::AtomicIsize>);
impl Occ {
    pub fn enter(c: &Arc<std::sync::atomic::AtomicIsize>) -> (isize, Occ) {
        (c.fetch_add(1, SeqCst), Occ(c.clone()))
    }
}
impl Drop for Occ {
    fn drop(&mut self) {
        self.0.fetch_sub(1, SeqCst);
    }
}

/// a loopback address of this process' own (the whole of 127/8 is local): every socket pair gets a fresh one, so that the
/// tens of thousands of TIME-WAIT entries a run leaves behind never exhaust the port space of one address ("Address
/// already in use" on the next check, which used to end as inconclusive executions)
pub fn lo() -> String {
    static N: AtomicU32 = AtomicU32::new(0);
    let n = N.fetch_add(1, Relaxed);
    let pid = std::process::id();
    format!("127.{}.{}.{}", 1 + pid % 250, 1 + (pid / 250 + n / 250) % 250, 1 + n % 250)
}
pub fn lo0() -> String {
    format!("{}:0", lo())
}

pub fn is_cancel_panic(e: &Box<dyn std::any::Any + Send>) -> bool {
    e.downcast_ref::<generator::Error>().map(|g| *g == generator::Error::Cancel).unwrap_or(false)
}

/// sleep that is legal for both kinds of actor
/// worst oversleep of a harness nap in this process (us) and what it was: a may sleep that takes seconds explains
/// helpers that "gave up" and is itself worth reporting
pub static WORST_NAP: std::sync::Mutex<(u64, u64, bool)> = std::sync::Mutex::new((0, 0, false));
pub fn nap(us: u64) {
    let t0 = Instant::now();
    may::coroutine::sleep(Duration::from_micros(us));
    let over = (t0.elapsed().as_micros() as u64).saturating_sub(us);
    if over > 200_000 {
        let mut w = WORST_NAP.lock().unwrap_or_else(|e| e.into_inner());
        if over > w.0 {
            *w = (over, us, may::coroutine::is_coroutine());
        }
    }
}
pub fn worst_nap() -> String {
    let w = WORST_NAP.lock().unwrap_or_else(|e| e.into_inner());
    if w.0 == 0 {
        String::new()
    } else {
        format!(" [worst harness nap so far: sleep({}us) in a {} took {}us longer]", w.1, if w.2 { "coroutine" } else { "thread" }, w.0)
    }
}

// ------------------------------------------------------------------ JSON helpers
pub fn jstr(s: &str) -> String {
    let mut o = String::with_capacity(s.len() + 2);
    o.push('"');
    for c in s.chars() {
        match c {
            '"' => o.push_str("\\\""),
            '\\' => o.push_str("\\\\"),
            '\n' => o.push_str("\\n"),
            '\r' => o.push_str("\\r"),
            '\t' => o.push_str("\\t"),
            c if (c as u32) < 0x20 => o.push_str(&format!("\\u{:04x}", c as u32)),
            c => o.push(c),
        }
    }
    o.push('"');
    o
}
pub fn jarr(v: &[String]) -> String {
    format!("[{}]", v.iter().map(|s| jstr(s)).collect::<Vec<_>>().join(","))
}

/// runs a closure when dropped (also by an unwind)
pub struct OnDrop<F: FnOnce()>(pub Option<F>);
impl<F: FnOnce()> Drop for OnDrop<F> {
    fn drop(&mut self) {
        if let Some(f) = self.0.take() {
            f();
        }
    }
}
