//! cqueue / select! scenarios (C16; the owner-fault variants feed C14 and C09).

use crate::scen_sync::wait_fire;
use crate::util::*;
use crate::ScenDef;
use may::coroutine;
use may::cqueue::PollError;
use may::sync::SyncFlag;
use std::sync::atomic::{AtomicIsize, AtomicUsize, Ordering::*};
use std::sync::Arc;
use std::time::{Duration, Instant};

pub fn defs() -> Vec<ScenDef> {
    let d = |name, f, fire| ScenDef { name, f, fire, gate_sites: &[], pool_cap: None, only_sites: &[] };
    vec![d("sel", sel as fn(&mut Exec) -> Res, false), d("cq", cq, false), d("selc", selc, true)]
}

struct Dec(Arc<AtomicIsize>);
impl Drop for Dec {
    fn drop(&mut self) {
        self.0.fetch_sub(1, SeqCst);
    }
}

/// select!-like one-shot arms released together; returns the token of a fully run arm
fn sel(x: &mut Exec) -> Res {
    let arms = x.rng.range(2, if x.thorough { 6 } else { 4 }) as usize;
    let poller_co = x.rng.chance(1, 2);
    let simultaneous = x.rng.chance(1, 2);
    let fire: Vec<u64> = (0..arms).map(|_| x.rng.below(500)).collect();
    let err = Arc::new(std::sync::Mutex::new(None::<String>));
    {
        let err = err.clone();
        let fire = fire.clone();
        x.spawn("poller", poller_co, move |a| {
            let tops: Arc<Vec<AtomicUsize>> = Arc::new((0..arms).map(|_| AtomicUsize::new(0)).collect());
            let bots: Arc<Vec<AtomicUsize>> = Arc::new((0..arms).map(|_| AtomicUsize::new(0)).collect());
            let bot_done: Arc<Vec<AtomicUsize>> = Arc::new((0..arms).map(|_| AtomicUsize::new(0)).collect());
            let running = Arc::new(AtomicIsize::new(0));
            let gate = Arc::new(SyncFlag::new());
            a.call("select", arms as u64);
            let tok = may::cqueue::scope(|cq| {
                for arm in 0..arms {
                    let (tops, bots, bot_done, running, gate) = (tops.clone(), bots.clone(), bot_done.clone(), running.clone(), gate.clone());
                    let d = fire[arm];
                    go!(cq, arm, move |es| {
                        running.fetch_add(1, SeqCst);
                        let _d = Dec(running.clone());
                        if simultaneous {
                            gate.wait();
                        } else {
                            coroutine::sleep(Duration::from_micros(d));
                        }
                        tops[arm].fetch_add(1, SeqCst);
                        es.send(arm * 10 + 1);
                        // bottom half
                        bots[arm].fetch_add(1, SeqCst);
                        if tops[arm].load(SeqCst) != 1 {
                            bots[arm].fetch_add(100, SeqCst);
                        }
                        coroutine::yield_now();
                        bot_done[arm].fetch_add(1, SeqCst);
                    });
                }
                if simultaneous {
                    gate.fire();
                }
                match cq.poll(None) {
                    Ok(ev) => {
                        if ev.extra != ev.token * 10 + 1 {
                            1000 + ev.token
                        } else {
                            ev.token
                        }
                    }
                    Err(e) => 100 + e as usize,
                }
            });
            a.ret("select", arms as u64, tok as u64);
            let mut e = err.lock().unwrap();
            if tok >= 1000 {
                *e = Some(format!("event of arm {} carried the wrong extra value", tok - 1000));
                return;
            }
            if tok >= 100 {
                *e = Some(format!("poll returned error {} while arms were alive", tok - 100));
                return;
            }
            if running.load(SeqCst) != 0 {
                *e = Some("an arm is still executing after the select scope returned".into());
            }
            if tops[tok].load(SeqCst) != 1 || bots[tok].load(SeqCst) != 1 {
                *e = Some(format!("returned token {}: top ran {} times, bottom {} times", tok, tops[tok].load(SeqCst), bots[tok].load(SeqCst)));
            }
            for arm in 0..arms {
                let (t, b) = (tops[arm].load(SeqCst), bots[arm].load(SeqCst));
                if b > t || b > 1 {
                    *e = Some(format!("arm {}: bottom half ran {} times for {} top halves", arm, b, t));
                }
            }
        });
    }
    x.desc = format!("select arms={} poller_co={} simultaneous={} fire_us={:?}", arms, poller_co, simultaneous, fire);
    x.wait_all()?;
    if let Some(e) = err.lock().unwrap().take() {
        return viol(format!("select: {}", e));
    }
    Ok(())
}

/// poll loop with repeated events, time-outs, panicking arms and removed selectors
fn cq(x: &mut Exec) -> Res {
    let arms = x.rng.range(1, if x.thorough { 6 } else { 3 }) as usize;
    let evs: Vec<usize> = (0..arms).map(|_| x.rng.below(4) as usize).collect();
    let poller_co = x.rng.chance(1, 2);
    let panic_arm = if x.rng.chance(1, 3) { Some(x.rng.below(arms as u64) as usize) } else { None };
    // a removed (cancelled) arm, alone or - with two arms or more - *before* the real panic of another arm: the Cancel
    // of the removed arm must not make the queue deaf to the panic that follows
    let remove_arm = if panic_arm.is_none() && x.rng.chance(1, 4) {
        Some(x.rng.below(arms as u64) as usize)
    } else if panic_arm.is_some() && arms >= 2 && x.rng.chance(1, 3) {
        Some((panic_arm.unwrap() + 1 + x.rng.below(arms as u64 - 1) as usize) % arms)
    } else {
        None
    };
    let removed_seen = Arc::new(AtomicUsize::new(0));
    let seeds: Vec<u64> = (0..arms).map(|_| x.rng.next()).collect();
    let poll_ms = x.rng.range(2, 3);
    x.timeout_used(Duration::from_millis(poll_ms));
    // the poller may leave the scope early: the final drain then has to do everything,
    // including meeting a panicked arm while others are still alive
    let mut early_exit = if x.rng.chance(1, 2) { Some(x.rng.below(3)) } else { None };
    // "forever" mode: polls without a timeout while another arm stays alive and silent after its events: only the
    // wake-up that comes with the panicking arm's final event can end the scenario (a poll time-out would paper over
    // a missing wake-up)
    let forever = panic_arm.is_some() && remove_arm.is_none() && arms >= 2 && x.rng.chance(1, 2);
    let silent_arm = if forever { Some((panic_arm.unwrap() + 1) % arms) } else { None };
    if forever || (panic_arm.is_some() && remove_arm.is_some()) {
        early_exit = None;
    }
    let err = Arc::new(std::sync::Mutex::new(None::<String>));
    let (e2, evs2) = (err.clone(), evs.clone());
    let rs = removed_seen.clone();
    let guard_spins: Vec<u64> = (0..arms).map(|_| if x.rng.chance(1, 2) { x.rng.below(6000) } else { 0 }).collect();
    x.spawn("poller", poller_co, move |a| {
        let ended = Arc::new(AtomicUsize::new(0));
        // what a select coroutine *captured* is released after its EventSender (a parameter) is dropped, i.e. after its
        // final event: a guard among the captures that looks at the enclosing frame must still find it alive
        let frame_alive = Arc::new(AtomicUsize::new(1));
        let late_guards = Arc::new(AtomicUsize::new(0));
        struct Captured(Arc<AtomicUsize>, Arc<AtomicUsize>, u64);
        impl Drop for Captured {
            fn drop(&mut self) {
                for _ in 0..self.2 {
                    std::hint::spin_loop();
                }
                if self.0.load(SeqCst) == 0 {
                    self.1.fetch_add(1, SeqCst);
                }
            }
        }
        let tops: Arc<Vec<AtomicUsize>> = Arc::new((0..arms).map(|_| AtomicUsize::new(0)).collect());
        let bots: Arc<Vec<AtomicUsize>> = Arc::new((0..arms).map(|_| AtomicUsize::new(0)).collect());
        let mut got = vec![0usize; arms];
        let mut seen_extra: Vec<Vec<usize>> = vec![vec![]; arms];
        let (mut finished_early, mut early_to, mut bad_bottom) = (false, false, false);
        let r = std::panic::catch_unwind(std::panic::AssertUnwindSafe(|| {
            let (_quiet_tx, quiet_rx) = may::sync::mpsc::channel::<()>();
            let mut quiet_rx = Some(quiet_rx);
            may::cqueue::scope(|cq| {
                let mut sels = vec![];
                for arm in 0..arms {
                    let (ended, tops, bots) = (ended.clone(), tops.clone(), bots.clone());
                    let n = evs2[arm];
                    let mut r = Rng::new(seeds[arm]);
                    let pa = panic_arm == Some(arm);
                    let rm = remove_arm == Some(arm);
                    let wait_removed = pa && remove_arm.is_some();
                    let rs2 = rs.clone();
                    let captured = Captured(frame_alive.clone(), late_guards.clone(), guard_spins[arm]);
                    // the silent arm of the forever mode blocks on a channel nobody sends to: no timer, no hook
                    // hit, so a poller that is not woken leaves the runtime quiescent
                    let quiet = if silent_arm == Some(arm) { Some(quiet_rx.take().unwrap()) } else { None };
                    let s = go!(cq, arm, move |es| {
                        struct End(Arc<AtomicUsize>);
                        impl Drop for End {
                            fn drop(&mut self) {
                                self.0.fetch_add(1, SeqCst);
                            }
                        }
                        let _e = End(ended.clone());
                        let _c = &captured;
                        for j in 0..n {
                            coroutine::sleep(Duration::from_micros(r.below(400)));
                            tops[arm].fetch_add(1, SeqCst);
                            es.send(j);
                            bots[arm].fetch_add(1, SeqCst);
                        }
                        if wait_removed {
                            // the real panic comes after the poller has removed the other arm and polled again
                            let t0 = Instant::now();
                            while rs2.load(SeqCst) == 0 && t0.elapsed() < Duration::from_secs(5) {
                                coroutine::sleep(Duration::from_micros(200));
                            }
                        }
                        if pa {
                            // give the poller time to go to sleep again: the final event of a panicking arm has
                            // to wake it up by itself
                            if r.chance(2, 3) {
                                coroutine::sleep(Duration::from_micros(r.below(900)));
                            }
                            panic!("ARM{}", arm);
                        }
                        if let Some(q) = quiet {
                            let _ = q.recv();
                        }
                        if rm {
                            // stays until removed by the poller
                            loop {
                                coroutine::sleep(Duration::from_millis(20));
                            }
                        }
                    });
                    sels.push(Some(s));
                }
                let mut polls = 0;
                loop {
                    if early_exit == Some(polls) {
                        break;
                    }
                    polls += 1;
                    if let Some(rmv) = remove_arm {
                        if polls == 2 {
                            if let Some(s) = sels[rmv].take() {
                                s.remove();
                            }
                        }
                        if polls == 4 {
                            // two polls after the removal: its Done event has been through the queue
                            rs.store(1, SeqCst);
                        }
                    }
                    let t0 = Instant::now();
                    a.call("poll", polls);
                    let r = cq.poll(if forever { None } else { Some(Duration::from_millis(poll_ms)) });
                    match r {
                        Ok(ev) => {
                            a.ret("poll", polls, ev.token as u64 * 100 + ev.extra as u64);
                            got[ev.token] += 1;
                            seen_extra[ev.token].push(ev.extra);
                            // the bottom half has run when poll returns the event
                            if bots[ev.token].load(SeqCst) < got[ev.token] {
                                bad_bottom = true;
                            }
                        }
                        Err(PollError::Timeout) => {
                            a.ret("poll", polls, 9998);
                            if t0.elapsed() < Duration::from_millis(poll_ms) {
                                early_to = true;
                            }
                        }
                        Err(PollError::Finished) => {
                            a.ret("poll", polls, 9999);
                            if ended.load(SeqCst) != arms {
                                finished_early = true;
                            }
                            break;
                        }
                    }
                }
            })
        }));
        // the scope is left: its frame is gone
        frame_alive.store(0, SeqCst);
        // (a late guard needs a moment to get to its check)
        nap(400);
        let mut e = e2.lock().unwrap();
        if late_guards.load(SeqCst) != 0 {
            *e = Some(format!("cqueue scope was left while {} select coroutine(s) were still releasing what they had captured (their guards found the enclosing frame gone)", late_guards.load(SeqCst)));
        }
        if finished_early {
            *e = Some("poll returned Finished before every select coroutine had ended".into());
        }
        if early_to {
            *e = Some(format!("poll({}ms) returned Timeout early", poll_ms));
        }
        if bad_bottom {
            *e = Some("poll returned an event whose bottom half had not run yet".into());
        }
        match (panic_arm, &r) {
            // with an early exit the arm may be cancelled before it reaches its panic
            (Some(_), Ok(_)) if early_exit.is_some() => {}
            (Some(arm), Ok(_)) => *e = Some(format!("panic of arm {} was not re-raised in the poller", arm)),
            (Some(arm), Err(p)) => {
                if p.downcast_ref::<String>() != Some(&format!("ARM{}", arm)) {
                    *e = Some(format!("the poller received a different panic payload than the arm raised (String={:?} str={:?} cancel={})", p.downcast_ref::<String>(), p.downcast_ref::<&str>(), is_cancel_panic(p)));
                }
            }
            (None, Err(_)) => *e = Some("poller panicked without a panicking arm".into()),
            _ => {}
        }
        if r.is_ok() && early_exit.is_none() {
            for arm in 0..arms {
                let (t, b) = (tops[arm].load(SeqCst), bots[arm].load(SeqCst));
                if remove_arm == Some(arm) {
                    // a removed (cancelled) arm delivers a prefix of its events; a bottom half only ever runs for an
                    // event that poll handed out (a send that meets the cancel raises it instead of falling through)
                    if got[arm] > evs2[arm] || b != got[arm] || t < b || t > b + 1 || seen_extra[arm] != (0..got[arm]).collect::<Vec<_>>() {
                        *e = Some(format!("removed arm {}: poll delivered {} events {:?}, top halves {}, bottom halves {}", arm, got[arm], seen_extra[arm], t, b));
                    }
                    continue;
                }
                if got[arm] != evs2[arm] || t != evs2[arm] || b != evs2[arm] {
                    *e = Some(format!("arm {}: sent {} events, poll delivered {}, top halves {}, bottom halves {}", arm, evs2[arm], got[arm], t, b));
                }
                if seen_extra[arm] != (0..evs2[arm]).collect::<Vec<_>>() {
                    *e = Some(format!("arm {}: events arrived as {:?}", arm, seen_extra[arm]));
                }
            }
        }
        if ended.load(SeqCst) != arms {
            *e = Some("cqueue scope returned while a select coroutine was still alive".into());
        }
    });
    x.desc = format!("cqueue arms={} events={:?} panic_arm={:?} remove_arm={:?} poller_co={} poll={}ms early_exit_after={:?} forever(silent arm)={:?}", arms, evs, panic_arm, remove_arm, poller_co, poll_ms, early_exit, silent_arm);
    x.wait_all()?;
    if let Some(e) = err.lock().unwrap().take() {
        return viol(format!("cqueue: {}", e));
    }
    Ok(())
}

/// select! with a nested join! in one arm (safe code only); the owner is optionally cancelled
fn selc(x: &mut Exec) -> Res {
    let win_after = x.rng.below(800);
    let child_steps = x.rng.range(1, 4);
    let cancel_owner = x.rng.chance(1, 2);
    let late = Arc::new(AtomicUsize::new(0));
    let l2 = late.clone();
    let (_, h) = x.spawn_co("owner", move |a| {
        let frame_gone = Arc::new(AtomicUsize::new(0));
        let (fg, l3) = (frame_gone.clone(), l2.clone());
        a.call("select", 0);
        let _id = select!(
            _ = {
                struct G(Arc<AtomicUsize>);
                impl Drop for G {
                    fn drop(&mut self) {
                        self.0.store(1, SeqCst);
                    }
                }
                let _g = G(fg.clone());
                let (fg2, l4) = (fg.clone(), l3.clone());
                join!({
                    for _ in 0..child_steps {
                        coroutine::sleep(Duration::from_micros(150));
                        if fg2.load(SeqCst) != 0 {
                            l4.fetch_add(1, SeqCst);
                            break;
                        }
                    }
                });
            } => {},
            _ = coroutine::sleep(Duration::from_micros(win_after)) => {}
        );
        a.ret("select", 0, _id as u64);
    });
    x.desc = format!("select!{{ join!{{child {} steps}} | sleep {}us }} cancel_owner={}", child_steps, win_after, cancel_owner);
    if cancel_owner {
        let at = x.rng.below(900);
        wait_fire(at);
        unsafe { h.coroutine().cancel() };
    }
    x.wait_all()?;
    let _ = h.join();
    std::thread::sleep(Duration::from_millis(2));
    if late.load(SeqCst) != 0 {
        return viol(format!("child of join! ran {} step(s) after the frame of its owning select arm was left (cancel_owner={})", late.load(SeqCst), cancel_owner));
    }
    Ok(())
}
