//! Channel scenarios: delivery exactly once + per-sender order (C06), disconnect observed (C07).

use crate::hook;
use crate::util::*;
use crate::ScenDef;
use may::queue::verif::site;
use may::sync::{mpmc, mpsc, spsc};
use std::sync::atomic::{AtomicUsize, Ordering::*};
use std::sync::mpsc::{RecvTimeoutError, TryRecvError};
use std::sync::Arc;
use std::time::{Duration, Instant};

const GATES: &[u32] = &[
    site::CH_SPSC_RECV_EMPTY,
    site::CH_SPSC_SUB_STORED,
    site::CH_SPSC_TRECV_STORED,
    site::CH_MPMC_RECV_EMPTY,
    site::CH_MPSC_RECV_REGISTERED,
    site::CH_MPSC_TRY_EMPTY,
];

pub fn defs() -> Vec<ScenDef> {
    let d = |name, f, gate_sites: &'static [u32]| ScenDef { name, f, fire: false, gate_sites, pool_cap: None, only_sites: &[] };
    vec![
        d("chan", chan as fn(&mut Exec) -> Res, &[]),
        d("dis", dis, GATES),
        d("disrx", disrx, &[]),
        d("disrace", disrace, &[]),
    ]
}

pub struct Msg {
    pub v: u64,
    pub t: Tracked,
}

#[derive(Clone, Copy, Debug, PartialEq)]
enum Kind {
    Mpsc,
    Spsc,
    Mpmc,
}

enum Tx {
    Mpsc(mpsc::Sender<Msg>),
    Spsc(spsc::Sender<Msg>),
    Mpmc(mpmc::Sender<Msg>),
}
impl Tx {
    fn send(&self, m: Msg) -> Result<(), Msg> {
        match self {
            Tx::Mpsc(t) => t.send(m).map_err(|e| e.0),
            Tx::Spsc(t) => t.send(m).map_err(|e| e.0),
            Tx::Mpmc(t) => t.send(m).map_err(|e| e.0),
        }
    }
    fn try_clone(&self) -> Option<Tx> {
        match self {
            Tx::Mpsc(t) => Some(Tx::Mpsc(t.clone())),
            Tx::Spsc(_) => None,
            Tx::Mpmc(t) => Some(Tx::Mpmc(t.clone())),
        }
    }
}
enum Rx {
    Mpsc(mpsc::Receiver<Msg>),
    Spsc(spsc::Receiver<Msg>),
    Mpmc(mpmc::Receiver<Msg>),
}
#[derive(Debug)]
enum Got {
    Val(Msg),
    Empty,
    Timeout,
    Disc,
}
impl std::fmt::Debug for Msg {
    fn fmt(&self, f: &mut std::fmt::Formatter) -> std::fmt::Result {
        write!(f, "Msg({:#x})", self.v)
    }
}
impl Rx {
    fn recv(&self) -> Got {
        match self {
            Rx::Mpsc(r) => r.recv().map(Got::Val).unwrap_or(Got::Disc),
            Rx::Spsc(r) => r.recv().map(Got::Val).unwrap_or(Got::Disc),
            Rx::Mpmc(r) => r.recv().map(Got::Val).unwrap_or(Got::Disc),
        }
    }
    fn try_recv(&self) -> Got {
        let r = match self {
            Rx::Mpsc(r) => r.try_recv(),
            Rx::Spsc(r) => r.try_recv(),
            Rx::Mpmc(r) => r.try_recv(),
        };
        match r {
            Ok(v) => Got::Val(v),
            Err(TryRecvError::Empty) => Got::Empty,
            Err(TryRecvError::Disconnected) => Got::Disc,
        }
    }
    fn recv_timeout(&self, d: Duration) -> Got {
        let r = match self {
            Rx::Mpsc(r) => r.recv_timeout(d),
            Rx::Spsc(_) => unreachable!("spsc has no recv_timeout"),
            Rx::Mpmc(r) => r.recv_timeout(d),
        };
        match r {
            Ok(v) => Got::Val(v),
            Err(RecvTimeoutError::Timeout) => Got::Timeout,
            Err(RecvTimeoutError::Disconnected) => Got::Disc,
        }
    }
    fn try_clone(&self) -> Option<Rx> {
        match self {
            Rx::Mpmc(r) => Some(Rx::Mpmc(r.clone())),
            _ => None,
        }
    }
}

fn make(kind: Kind) -> (Tx, Rx) {
    match kind {
        Kind::Mpsc => {
            let (t, r) = mpsc::channel();
            (Tx::Mpsc(t), Rx::Mpsc(r))
        }
        Kind::Spsc => {
            let (t, r) = spsc::channel();
            (Tx::Spsc(t), Rx::Spsc(r))
        }
        Kind::Mpmc => {
            let (t, r) = mpmc::channel();
            (Tx::Mpmc(t), Rx::Mpmc(r))
        }
    }
}

struct Shared {
    reg: Arc<DropReg>,
    per: usize,
    /// how often each value was received
    seen: Vec<AtomicUsize>,
    errs: std::sync::Mutex<Vec<String>>,
}

/// receiver loop: mode 0 blocking, 1 recv_timeout, 2 try_recv polling, 3 iterator-like (blocking)
/// returns after Disconnected; checks per-sender order and never-early timeouts
fn receiver_loop(a: &Actor, rx: &Rx, mode: u64, ms: u64, sh: &Shared, senders: usize, stop_after: Option<usize>) -> usize {
    let mut last: Vec<Option<u64>> = vec![None; senders];
    let mut got = 0usize;
    let mut after_disc = false;
    loop {
        if let Some(k) = stop_after {
            if got >= k {
                return got;
            }
        }
        let t0 = Instant::now();
        let r = match mode {
            1 => {
                a.call("recv_timeout", ms);
                rx.recv_timeout(Duration::from_millis(ms))
            }
            2 => {
                a.call("try_recv", 0);
                rx.try_recv()
            }
            _ => {
                a.call("recv", 0);
                rx.recv()
            }
        };
        match r {
            Got::Val(m) => {
                a.ret("recv", m.v, 1);
                if after_disc {
                    sh.errs.lock().unwrap().push(format!("receiver {}: value {:#x} after Disconnected", a.id, m.v));
                }
                if !m.t.ok() {
                    sh.errs.lock().unwrap().push(format!("receiver {}: payload of {:#x} corrupted", a.id, m.v));
                }
                let (s, i) = ((m.v >> 32) as usize, m.v & 0xffff_ffff);
                if s >= senders || i as usize >= sh.per {
                    sh.errs.lock().unwrap().push(format!("received {:#x} which was never sent", m.v));
                } else {
                    if let Some(l) = last[s] {
                        if i <= l {
                            sh.errs.lock().unwrap().push(format!("receiver {}: sender {} value {} arrived after {}", a.id, s, i, l));
                        }
                    }
                    last[s] = Some(i);
                    sh.seen[s * sh.per + i as usize].fetch_add(1, SeqCst);
                }
                got += 1;
            }
            Got::Empty => {
                a.ret("recv", 0, 0);
                may::coroutine::yield_now();
                if !a.is_co() {
                    std::thread::sleep(Duration::from_micros(50));
                }
            }
            Got::Timeout => {
                a.ret("recv", 0, 2);
                if t0.elapsed() < Duration::from_millis(ms) {
                    sh.errs.lock().unwrap().push(format!("recv_timeout({}ms) returned Timeout after {:?}", ms, t0.elapsed()));
                }
            }
            Got::Disc => {
                a.ret("recv", 0, 3);
                if after_disc {
                    return got;
                }
                // Disconnected must be sticky: ask once more
                after_disc = true;
            }
        }
    }
}

fn final_checks(sh: &Shared, senders: usize, sent_ok: &[AtomicUsize], what: &str, all_must_arrive: bool) -> Res {
    if let Some(e) = sh.errs.lock().unwrap().first() {
        return viol(format!("{}: {}", what, e));
    }
    for s in 0..senders {
        let ok = sent_ok[s].load(SeqCst);
        for i in 0..sh.per {
            let c = sh.seen[s * sh.per + i].load(SeqCst);
            let id = s * sh.per + i;
            if c > 1 {
                return viol(format!("{}: value {}:{} received {} times", what, s, i, c));
            }
            if all_must_arrive && i < ok && c != 1 {
                return viol(format!("{}: value {}:{} was sent (Ok) but received {} times", what, s, i, c));
            }
            if i < ok || c > 0 {
                let d = sh.reg.count(id);
                if d != 1 {
                    return viol(format!("{}: payload of value {}:{} dropped {} times", what, s, i, d));
                }
            }
        }
    }
    Ok(())
}

fn nap_until_fire(fallback_us: u64) {
    let t0 = Instant::now();
    while !hook::FIRE.load(SeqCst) && t0.elapsed() < Duration::from_micros(fallback_us) {
        nap(40);
    }
}

// ------------------------------------------------------------------------------------ C06
fn chan(x: &mut Exec) -> Res {
    let kind = *x.rng.pick(&[Kind::Mpsc, Kind::Mpsc, Kind::Spsc, Kind::Mpmc, Kind::Mpmc]);
    let senders = if kind == Kind::Spsc { 1 } else { x.rng.range(1, if x.thorough { 4 } else { 3 }) as usize };
    let receivers = if kind == Kind::Mpmc { x.rng.range(1, if x.thorough { 4 } else { 3 }) as usize } else { 1 };
    let per = x.rng.range(1, if x.thorough { 300 } else { 90 }) as usize;
    let sh = Arc::new(Shared { reg: DropReg::new(senders * per), per, seen: (0..senders * per).map(|_| AtomicUsize::new(0)).collect(), errs: Default::default() });
    let sent_ok: Arc<Vec<AtomicUsize>> = Arc::new((0..senders).map(|_| AtomicUsize::new(0)).collect());
    let (tx, rx) = make(kind);
    let mut txs = vec![];
    for _ in 1..senders {
        txs.push(tx.try_clone().unwrap());
    }
    txs.push(tx);
    let mut rxs = vec![];
    for _ in 1..receivers {
        rxs.push(rx.try_clone().unwrap());
    }
    rxs.push(rx);
    let mut desc = format!("{:?} senders={} receivers={} per={} ", kind, senders, receivers, per);
    for (s, tx) in txs.into_iter().enumerate() {
        let (sh, sent_ok) = (sh.clone(), sent_ok.clone());
        let mut r = x.rng.fork();
        let is_co = x.rng.chance(1, 2);
        desc += &format!("s{}:{} ", s, if is_co { "co" } else { "th" });
        x.spawn(&format!("s{}", s), is_co, move |a| {
            for i in 0..per {
                let v = ((s as u64) << 32) | i as u64;
                a.call("send", v);
                let res = tx.send(Msg { v, t: Tracked::new(&sh.reg, s * per + i) });
                a.ret("send", v, res.is_ok() as u64);
                if res.is_err() {
                    sh.errs.lock().unwrap().push(format!("send {:#x} failed although a receiver is alive", v));
                    return;
                }
                sent_ok[s].fetch_add(1, SeqCst);
                if r.chance(1, 8) {
                    nap(r.below(300));
                }
            }
            a.call("drop_tx", 0);
            drop(tx);
            a.ret("drop_tx", 0, 0);
        });
    }
    for (ri, rx) in rxs.into_iter().enumerate() {
        let sh = sh.clone();
        let mode = if kind == Kind::Spsc { *x.rng.pick(&[0u64, 0, 2]) } else { x.rng.below(3) };
        let ms = x.rng.range(2, 3);
        if mode == 1 {
            x.timeout_used(Duration::from_millis(ms));
        }
        let is_co = x.rng.chance(2, 3);
        desc += &format!("r{}:{}/mode{} ", ri, if is_co { "co" } else { "th" }, mode);
        x.spawn(&format!("r{}", ri), is_co, move |a| {
            receiver_loop(a, &rx, mode, ms, &sh, senders, None);
            drop(rx);
        });
    }
    x.desc = desc;
    x.wait_all()?;
    final_checks(&sh, senders, &sent_ok, &format!("{:?} channel", kind), true)
}

// ------------------------------------------------------------------------------------ C07 (senders go away)
fn dis(x: &mut Exec) -> Res {
    let kind = *x.rng.pick(&[Kind::Mpsc, Kind::Spsc, Kind::Spsc, Kind::Mpmc, Kind::Mpmc, Kind::Mpmc]);
    let senders = if kind == Kind::Spsc { 1 } else { x.rng.range(1, 2) as usize };
    let receivers = if kind == Kind::Mpmc { x.rng.range(1, 4) as usize } else { 1 };
    let per = x.rng.below(5) as usize;
    let sh = Arc::new(Shared { reg: DropReg::new((senders * per).max(1)), per, seen: (0..senders * per).map(|_| AtomicUsize::new(0)).collect(), errs: Default::default() });
    let sent_ok: Arc<Vec<AtomicUsize>> = Arc::new((0..senders).map(|_| AtomicUsize::new(0)).collect());
    let (tx, rx) = make(kind);
    let senders_done = Arc::new(AtomicUsize::new(0));
    let delay = x.rng.below(400);
    let mut desc = format!("{:?} senders={} receivers={} per={} delay={}us ", kind, senders, receivers, per, delay);
    // the last sender to go is the closer; it holds the original handle
    let mut extra = vec![];
    for _ in 1..senders {
        extra.push(tx.try_clone().unwrap());
    }
    for (s, txc) in extra.into_iter().enumerate() {
        let (sh, sent_ok, sd) = (sh.clone(), sent_ok.clone(), senders_done.clone());
        let s = s + 1;
        x.spawn(&format!("s{}", s), s % 2 == 1, move |a| {
            nap(delay);
            for i in 0..per {
                let v = ((s as u64) << 32) | i as u64;
                a.call("send", v);
                let ok = txc.send(Msg { v, t: Tracked::new(&sh.reg, s * per + i) }).is_ok();
                a.ret("send", v, ok as u64);
                if ok {
                    sent_ok[s].fetch_add(1, SeqCst);
                }
            }
            drop(txc);
            sd.fetch_add(1, SeqCst);
        });
    }
    {
        let (sh, sent_ok, sd) = (sh.clone(), sent_ok.clone(), senders_done.clone());
        let is_co = x.rng.chance(1, 2);
        let fallback = x.rng.below(500);
        desc += &format!("closer:{} ", if is_co { "co" } else { "th" });
        x.spawn("s0-closer", is_co, move |a| {
            nap(delay);
            for i in 0..per {
                let v = i as u64;
                a.call("send", v);
                let ok = tx.send(Msg { v, t: Tracked::new(&sh.reg, i) }).is_ok();
                a.ret("send", v, ok as u64);
                if ok {
                    sent_ok[0].fetch_add(1, SeqCst);
                }
            }
            while sd.load(SeqCst) < senders - 1 {
                nap(30);
            }
            // aim the last drop into the receiver's window: wait until a receiver sits at the
            // planned hook (FIRE) or a short random time
            nap_until_fire(fallback);
            a.call("drop_last_tx", 0);
            drop(tx);
            a.ret("drop_last_tx", 0, 0);
            hook::GATE.store(true, SeqCst);
        });
    }
    let mut rxs = vec![];
    for _ in 1..receivers {
        rxs.push(rx.try_clone().unwrap());
    }
    rxs.push(rx);
    for (ri, rx) in rxs.into_iter().enumerate() {
        let sh = sh.clone();
        let mode = if kind == Kind::Spsc { *x.rng.pick(&[0u64, 0, 0, 2]) } else { *x.rng.pick(&[0u64, 0, 1, 2]) };
        let ms = x.rng.range(2, 3);
        if mode == 1 {
            x.timeout_used(Duration::from_millis(ms));
        }
        let is_co = x.rng.chance(3, 4);
        desc += &format!("r{}:{}/mode{} ", ri, if is_co { "co" } else { "th" }, mode);
        x.spawn(&format!("r{}", ri), is_co, move |a| {
            receiver_loop(a, &rx, mode, ms, &sh, senders, None);
            drop(rx);
        });
    }
    x.desc = desc;
    x.wait_all()?;
    final_checks(&sh, senders, &sent_ok, &format!("{:?} disconnect", kind), true)
}

// ------------------------------------------------------------------------------------ C07 (receiver goes away)
fn disrx(x: &mut Exec) -> Res {
    let kind = *x.rng.pick(&[Kind::Mpsc, Kind::Spsc, Kind::Mpmc]);
    let senders = if kind == Kind::Spsc { 1 } else { x.rng.range(1, 3) as usize };
    let per = x.rng.range(1, 80) as usize;
    let take = x.rng.below((senders * per) as u64 / 2 + 1) as usize;
    let sh = Arc::new(Shared { reg: DropReg::new(senders * per), per, seen: (0..senders * per).map(|_| AtomicUsize::new(0)).collect(), errs: Default::default() });
    let sent_ok: Arc<Vec<AtomicUsize>> = Arc::new((0..senders).map(|_| AtomicUsize::new(0)).collect());
    let rx_gone = Arc::new(AtomicUsize::new(0));
    let (tx, rx) = make(kind);
    let mut txs = vec![];
    for _ in 1..senders {
        txs.push(tx.try_clone().unwrap());
    }
    txs.push(tx);
    for (s, tx) in txs.into_iter().enumerate() {
        let (sh, sent_ok, rx_gone) = (sh.clone(), sent_ok.clone(), rx_gone.clone());
        let mut r = x.rng.fork();
        x.spawn(&format!("s{}", s), s % 2 == 0, move |a| {
            for i in 0..per {
                let v = ((s as u64) << 32) | i as u64;
                let gone_before = rx_gone.load(SeqCst) == 1;
                a.call("send", v);
                let res = tx.send(Msg { v, t: Tracked::new(&sh.reg, s * per + i) });
                a.ret("send", v, res.is_ok() as u64);
                match res {
                    Ok(()) => {
                        if gone_before {
                            sh.errs.lock().unwrap().push(format!("send {:#x} returned Ok although the last Receiver's drop had returned", v));
                        }
                        sent_ok[s].fetch_add(1, SeqCst);
                    }
                    Err(m) => {
                        if m.v != v || !m.t.ok() {
                            sh.errs.lock().unwrap().push(format!("failed send of {:#x} returned a different value {:#x}", v, m.v));
                        }
                    }
                }
                if r.chance(1, 6) {
                    nap(r.below(200));
                }
            }
            drop(tx);
        });
    }
    {
        let (sh, rx_gone) = (sh.clone(), rx_gone.clone());
        let is_co = x.rng.chance(1, 2);
        x.spawn("r0", is_co, move |a| {
            let got = receiver_loop(a, &rx, 0, 0, &sh, senders, Some(take));
            a.call("drop_rx", got as u64);
            drop(rx);
            a.ret("drop_rx", got as u64, 0);
            rx_gone.store(1, SeqCst);
        });
    }
    x.desc = format!("{:?} senders={} per={} receiver takes {} then drops", kind, senders, per, take);
    x.wait_all()?;
    // every payload ever created must have been dropped exactly once (received, returned by a
    // failed send, or dropped inside the channel)
    if let Some(e) = sh.errs.lock().unwrap().first() {
        return viol(format!("{:?} receiver-drop: {}", kind, e));
    }
    for id in 0..senders * per {
        let d = sh.reg.count(id);
        if d != 1 {
            return viol(format!("{:?} receiver-drop: payload {}:{} dropped {} times after all endpoints are gone", kind, id / per, id % per, d));
        }
        if sh.seen[id].load(SeqCst) > 1 {
            return viol(format!("{:?} receiver-drop: value {}:{} received twice", kind, id / per, id % per));
        }
    }
    Ok(())
}

// ------------------------------------------------------------------------------------ C07 stress
/// stress (hooks uninstalled): the last Sender's drop races with the receiver's try-receive /
/// register / re-check steps on fresh channels, tens of thousands of rounds per execution with
/// random offsets of a few hundred spins. Windows between two adjacent instructions of the
/// dropping sender cannot be held open by a stall plan; here they are hit by volume. A receiver
/// that is never told about the disconnect leaves the process quiescent with its recv() open.
fn disrace(x: &mut Exec) -> Res {
    let kind = *x.rng.pick(&[Kind::Spsc, Kind::Spsc, Kind::Mpsc, Kind::Mpmc]);
    let rx_co = x.rng.chance(1, 2);
    let rounds = if x.thorough { 100_000 } else { 25_000 };
    let errs = Arc::new(std::sync::Mutex::new(Vec::<String>::new()));
    // work items: the receiver gets the Rx (over a may channel if it is a coroutine, so that it
    // waits cooperatively), the sender the Tx over a std channel
    let (rx_work_tx, rx_work_rx) = mpsc::channel::<(Rx, u64, bool, bool)>();
    let (tx_work_tx, tx_work_rx) = std::sync::mpsc::channel::<(Tx, u64, bool)>();
    let rounds_done = Arc::new(AtomicUsize::new(0));
    let go = Arc::new(AtomicUsize::new(0));
    {
        let (errs, rd, go) = (errs.clone(), rounds_done.clone(), go.clone());
        x.spawn("receiver", rx_co, move |a| {
            let mut n = 0usize;
            while let Ok((rx, spins, poll, sent)) = rx_work_rx.recv() {
                n += 1;
                while go.load(SeqCst) < n {
                    std::hint::spin_loop();
                }
                for _ in 0..spins {
                    std::hint::spin_loop();
                }
                a.call("recv-until-disconnected", n as u64);
                let mut got = 0;
                let mut polls = 0u64;
                loop {
                    // half of the rounds poll with try_recv: the window between its failed pop and its look at the
                    // sender count is a few instructions wide and has no hook, only a tight loop gets into it
                    match if poll { rx.try_recv() } else { rx.recv() } {
                        Got::Val(_) => got += 1,
                        Got::Disc => break,
                        _ => {
                            polls += 1;
                            if polls % 64 == 0 && a.is_co() {
                                may::coroutine::yield_now();
                            }
                        }
                    }
                    if got > 1 {
                        errs.lock().unwrap().push("received more values than were sent".into());
                        break;
                    }
                }
                // the sender sends (if at all) before it drops its handle: whoever is told Disconnected has been handed
                // the value first ("first drains the values still queued and then gets Disconnected")
                if got == 0 && sent {
                    let late = matches!(rx.try_recv(), Got::Val(_));
                    errs.lock().unwrap().push(format!("round {}: {} reported Disconnected before the value that was sent ahead of the drop{}", n, if poll { "try_recv" } else { "recv" }, if late { " - a later try_recv still found it in the queue" } else { "" }));
                }
                a.ret("recv-until-disconnected", n as u64, got);
                drop(rx);
                rd.store(n, SeqCst);
            }
        });
    }
    {
        let go = go.clone();
        let reg = DropReg::new(1);
        x.spawn("sender", false, move |_a| {
            let mut n = 0usize;
            while let Ok((tx, spins, send_one)) = tx_work_rx.recv() {
                n += 1;
                while go.load(SeqCst) < n {
                    std::hint::spin_loop();
                }
                for _ in 0..spins {
                    std::hint::spin_loop();
                }
                if send_one {
                    let _ = tx.send(Msg { v: 0, t: Tracked::new(&reg, 0) });
                }
                drop(tx); // the last (only) sender goes away
            }
        });
    }
    x.desc = format!("{:?} disconnect race: {} rounds, receiver={} ; recv() and the Sender's drop start 0-600 spins apart", kind, rounds, if rx_co { "coroutine" } else { "thread" });
    for round in 1..=rounds {
        let (tx, rx) = make(kind);
        let (a, b) = (x.rng.below(600), x.rng.below(600));
        let send_one = x.rng.chance(1, 2);
        let poll = x.rng.chance(1, 2);
        let _ = tx_work_tx.send((tx, a, send_one));
        let _ = rx_work_tx.send((rx, b, poll, send_one));
        go.store(round, SeqCst);
        let rd = rounds_done.clone();
        x.wait_cond(&move || rd.load(SeqCst) >= round).map_err(|e| match e {
            Fail::Stranded(m) => Fail::Stranded(format!("round {}: the only Sender was dropped but recv() never returned; {}", round, m)),
            o => o,
        })?;
    }
    drop(tx_work_tx);
    drop(rx_work_tx);
    x.wait_all()?;
    if let Some(e) = errs.lock().unwrap().first() {
        return viol(format!("{:?} disconnect race: {}", kind, e));
    }
    Ok(())
}
