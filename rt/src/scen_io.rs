//! Network I/O scenarios on real sockets / real epoll: byte-stream integrity and readiness edges
//! (C17), I/O time-outs and cancel of blocked I/O (C18).
//!
//! A stranded I/O call is a violation only together with the kernel's own view (DESIGN §4 C17):
//! `poll(fd)` says readable/writable while the call stays suspended. Otherwise: inconclusive.
//! Sockets are kept alive until the execution is over (the `graveyard`), because dropping a socket
//! while another worker still executes its `subscribe` is known finding D14, probed separately.

use crate::scen_sync::wait_fire;
use crate::util::*;
use crate::ScenDef;
use may::coroutine;
use may::net::{TcpListener, TcpStream, UdpSocket};
use may::os::unix::net::{UnixDatagram, UnixStream};
use std::any::Any;
use std::io::{IoSlice, Read, Write};
use std::os::unix::io::AsRawFd;
use std::sync::atomic::{AtomicBool, AtomicUsize, Ordering::*};
use std::sync::Arc;
use std::time::{Duration, Instant};

pub fn defs() -> Vec<ScenDef> {
    let d = |name, f, fire| ScenDef { name, f, fire, gate_sites: &[], pool_cap: None, only_sites: &[] };
    vec![d("io", io as fn(&mut Exec) -> Res, false), d("tcp", tcp, false), d("dgram", dgram, false), d("iot", iot, false), d("iocan", iocan, true), d("unixsrv", unixsrv, false), d("iochurn", iochurn, false), d("iocant", iocant, true), d("ioext", ioext, false), d("iocanshare", iocanshare, true)]
}

type Grave = Arc<std::sync::Mutex<Vec<Box<dyn Any + Send>>>>;

fn byte_at(i: usize) -> u8 {
    ((i.wrapping_mul(2654435761)) >> 9) as u8
}

fn set_sndbuf(fd: i32, sz: i32) {
    unsafe {
        libc::setsockopt(fd, libc::SOL_SOCKET, libc::SO_SNDBUF, &sz as *const _ as *const _, 4);
    }
}

fn kernel_ready(fd: i32, want_in: bool) -> bool {
    let mut p = libc::pollfd { fd, events: if want_in { libc::POLLIN } else { libc::POLLOUT }, revents: 0 };
    let r = unsafe { libc::poll(&mut p, 1, 0) };
    r > 0 && (p.revents & (if want_in { libc::POLLIN | libc::POLLHUP } else { libc::POLLOUT })) != 0
}

/// turn a stranded verdict into violation / inconclusive using the kernel's view of the open calls
/// the wait for a coroutine whose `cancel()` has returned: it needs nothing from the transport to end, so a quiescent
/// runtime in which it is still suspended is a lost cancel whatever the kernel says about its socket
fn cancelled_must_end(r: Res) -> Res {
    match r {
        Err(Fail::Stranded(m)) => Err(Fail::Stranded(format!("cancel() had returned but the cancelled coroutine never ended (no Cancel error, nothing it owns was released); {}", m))),
        o => o,
    }
}

fn io_verdict(x: &Exec, r: Res) -> Res {
    match r {
        Err(Fail::Stranded(msg)) => {
            let mut ready = vec![];
            let mut non_io = false;
            for a in &x.actors {
                if a.done.load(SeqCst) {
                    continue;
                }
                if let Some((op, fd, _)) = *a.open.lock().unwrap() {
                    let want_in = matches!(op, "read" | "accept" | "recv" | "recv_from");
                    let want_out = matches!(op, "write" | "write_vectored" | "send");
                    if !want_in && !want_out {
                        // not an I/O call: a plain stranded waiter (which may only be waiting for a stuck I/O call)
                        non_io = true;
                        continue;
                    }
                    let r1 = kernel_ready(fd as i32, want_in);
                    std::thread::sleep(Duration::from_millis(100));
                    let r2 = kernel_ready(fd as i32, want_in);
                    if r1 && r2 {
                        let mut n: i32 = 0;
                        unsafe { libc::ioctl(fd as i32, libc::FIONREAD, &mut n) };
                        ready.push(format!("{} suspended in {}(fd {}) while the kernel reports it {} ({} bytes readable)", a.name, op, fd, if want_in { "readable" } else { "writable" }, n));
                    }
                }
            }
            if ready.is_empty() && non_io {
                Err(Fail::Stranded(msg))
            } else if ready.is_empty() {
                Err(Fail::Inconclusive(format!("transport stall: no suspended I/O call is ready in the kernel's view; {}", msg)))
            } else {
                Err(Fail::Stranded(format!("missed readiness edge: {:?}; {}", ready, msg)))
            }
        }
        other => other,
    }
}

enum Stream {
    Unix(UnixStream),
    Tcp(TcpStream),
}
impl Stream {
    fn fd(&self) -> i32 {
        match self {
            Stream::Unix(s) => s.as_raw_fd(),
            Stream::Tcp(s) => s.as_raw_fd(),
        }
    }
    fn shutdown_write(&self) {
        match self {
            Stream::Unix(s) => s.shutdown(std::net::Shutdown::Write).ok(),
            Stream::Tcp(s) => s.shutdown(std::net::Shutdown::Write).ok(),
        };
    }
    fn set_read_timeout(&self, d: Option<Duration>) {
        match self {
            Stream::Unix(s) => s.set_read_timeout(d).unwrap(),
            Stream::Tcp(s) => s.set_read_timeout(d).unwrap(),
        }
    }
}
impl Read for Stream {
    fn read(&mut self, b: &mut [u8]) -> std::io::Result<usize> {
        match self {
            Stream::Unix(s) => s.read(b),
            Stream::Tcp(s) => s.read(b),
        }
    }
}
impl Write for Stream {
    fn write(&mut self, b: &[u8]) -> std::io::Result<usize> {
        match self {
            Stream::Unix(s) => s.write(b),
            Stream::Tcp(s) => s.write(b),
        }
    }
    fn write_vectored(&mut self, b: &[IoSlice<'_>]) -> std::io::Result<usize> {
        match self {
            Stream::Unix(s) => s.write_vectored(b),
            Stream::Tcp(s) => s.write_vectored(b),
        }
    }
    fn flush(&mut self) -> std::io::Result<()> {
        Ok(())
    }
}

fn tcp_pair() -> std::io::Result<(TcpStream, TcpStream)> {
    // blocking std calls on the harness thread only
    let l = std::net::TcpListener::bind(lo0())?;
    let addr = l.local_addr()?;
    let c = std::net::TcpStream::connect(addr)?;
    let (s, _) = l.accept()?;
    c.set_nodelay(true).ok();
    s.set_nodelay(true).ok();
    use std::os::unix::io::{FromRawFd, IntoRawFd};
    Ok(unsafe { (TcpStream::from_raw_fd(c.into_raw_fd()), TcpStream::from_raw_fd(s.into_raw_fd())) })
}

/// writer side: `total` bytes of the deterministic stream in random chunks
fn write_stream(a: &Actor, s: &mut Stream, total: usize, r: &mut Rng, err: &std::sync::Mutex<Option<String>>) {
    let fd = s.fd() as u64;
    let mut sent = 0usize;
    while sent < total {
        let big = r.chance(1, 8);
        let n = (1 + r.below(if big { 200_000 } else { 9000 }) as usize).min(total - sent);
        let buf: Vec<u8> = (sent..sent + n).map(byte_at).collect();
        if r.chance(1, 4) && n > 3 {
            // vectored write of two slices, may be partial
            let (b1, b2) = buf.split_at(n / 3);
            let mut off = 0;
            while off < n {
                let sl = if off < b1.len() { vec![IoSlice::new(&b1[off..]), IoSlice::new(b2)] } else { vec![IoSlice::new(&b2[off - b1.len()..])] };
                a.call("write_vectored", fd);
                match s.write_vectored(&sl) {
                    Ok(0) => {
                        *err.lock().unwrap() = Some("write_vectored returned 0".into());
                        return;
                    }
                    Ok(k) => {
                        a.ret("write_vectored", fd, k as u64);
                        off += k
                    }
                    Err(e) => {
                        *err.lock().unwrap() = Some(format!("write_vectored error {:?}", e));
                        return;
                    }
                }
            }
        } else {
            a.call("write", fd);
            if let Err(e) = s.write_all(&buf) {
                *err.lock().unwrap() = Some(format!("write error {:?}", e));
                return;
            }
            a.ret("write", fd, n as u64);
        }
        sent += n;
        if r.chance(1, 6) {
            nap(r.below(700));
        }
    }
    s.shutdown_write();
}

/// reader side: verifies content/order/length; read -> 0 only after all `total` bytes
fn read_stream(a: &Actor, s: &mut Stream, total: usize, r: &mut Rng, timed_ms: Option<u64>, err: &std::sync::Mutex<Option<String>>) {
    let fd = s.fd() as u64;
    if let Some(ms) = timed_ms {
        s.set_read_timeout(Some(Duration::from_millis(ms)));
    }
    let mut got = 0usize;
    loop {
        let big = r.chance(1, 8);
        let mut buf = vec![0u8; 1 + r.below(if big { 100_000 } else { 7000 }) as usize];
        let t0 = Instant::now();
        a.call("read", fd);
        match s.read(&mut buf) {
            Ok(0) => {
                a.ret("read", fd, 0);
                break;
            }
            Ok(n) => {
                a.ret("read", fd, n as u64);
                for k in 0..n {
                    if buf[k] != byte_at(got + k) {
                        *err.lock().unwrap() = Some(format!("stream corrupted at offset {} (got {:#x}, want {:#x})", got + k, buf[k], byte_at(got + k)));
                        return;
                    }
                }
                got += n;
                if r.chance(1, 5) {
                    nap(r.below(500));
                }
            }
            Err(e) if e.kind() == std::io::ErrorKind::TimedOut || e.kind() == std::io::ErrorKind::WouldBlock => {
                a.ret("read", fd, u64::MAX);
                match timed_ms {
                    None => {
                        *err.lock().unwrap() = Some("read timed out although no read timeout was set".into());
                        return;
                    }
                    Some(ms) => {
                        if t0.elapsed() < Duration::from_millis(ms) {
                            *err.lock().unwrap() = Some(format!("read timeout of {}ms fired after {:?}", ms, t0.elapsed()));
                            return;
                        }
                    }
                }
            }
            Err(e) => {
                *err.lock().unwrap() = Some(format!("read error {:?}", e));
                return;
            }
        }
    }
    if got != total {
        *err.lock().unwrap() = Some(format!("end of stream after {} of {} bytes", got, total));
    }
}

// ------------------------------------------------------------------------------------ C17 one-way transfer
fn io(x: &mut Exec) -> Res {
    let use_tcp = x.rng.chance(1, 3);
    let conns = x.rng.range(1, if x.thorough { 6 } else { 2 }) as usize;
    let grave: Grave = Default::default();
    let err = Arc::new(std::sync::Mutex::new(None::<String>));
    let mut desc = format!("{} one-way transfer, {} connection(s): ", if use_tcp { "tcp" } else { "unix-stream" }, conns);
    for c in 0..conns {
        let (a, b) = if use_tcp {
            let (a, b) = tcp_pair().map_err(|e| Fail::Inconclusive(format!("tcp_pair: {}", e)))?;
            (Stream::Tcp(a), Stream::Tcp(b))
        } else {
            let (a, b) = UnixStream::pair().map_err(|e| Fail::Inconclusive(format!("pair: {}", e)))?;
            (Stream::Unix(a), Stream::Unix(b))
        };
        // back-pressure through a small *send* buffer only (shrinking SO_RCVBUF on loopback TCP wedges
        // the kernel's own window logic, see DESIGN)
        let sb = *x.rng.pick(&[4608, 8192, 16384, 0]);
        if sb != 0 {
            set_sndbuf(a.fd(), sb);
        }
        let total = if x.rng.chance(1, 10) { 0 } else { x.rng.below(if x.thorough { 600_000 } else { 60_000 }) as usize };
        let (w_co, r_co) = (x.rng.chance(1, 2), x.rng.chance(3, 4));
        let timed = if x.rng.chance(1, 3) { Some(x.rng.range(2, 3)) } else { None };
        if let Some(ms) = timed {
            x.io_timeout_used(Duration::from_millis(ms));
        }
        desc += &format!("[#{} total={} sndbuf={} w={} r={} read_timeout={:?}] ", c, total, sb, if w_co { "co" } else { "th" }, if r_co { "co" } else { "th" }, timed);
        let (mut r1, mut r2) = (x.rng.fork(), x.rng.fork());
        let (e1, e2, g1, g2) = (err.clone(), err.clone(), grave.clone(), grave.clone());
        x.spawn(&format!("writer{}", c), w_co, move |act| {
            let mut a = a;
            write_stream(act, &mut a, total, &mut r1, &e1);
            g1.lock().unwrap().push(Box::new(a));
        });
        x.spawn(&format!("reader{}", c), r_co, move |act| {
            let mut b = b;
            read_stream(act, &mut b, total, &mut r2, timed, &e2);
            g2.lock().unwrap().push(Box::new(b));
        });
    }
    x.desc = desc;
    let r = x.wait_all();
    io_verdict(x, r)?;
    grave.lock().unwrap().clear();
    if let Some(e) = err.lock().unwrap().take() {
        return viol(format!("stream I/O: {}", e));
    }
    Ok(())
}

// ------------------------------------------------------------------------------------ C17 accept/connect/echo
fn tcp(x: &mut Exec) -> Res {
    let n = x.rng.range(1, if x.thorough { 24 } else { 5 }) as usize;
    let v6 = x.rng.chance(1, 4);
    let listener = TcpListener::bind(if v6 { "[::1]:0".to_string() } else { lo0() }).map_err(|e| Fail::Inconclusive(format!("bind: {}", e)))?;
    let addr = listener.local_addr().unwrap();
    let grave: Grave = Default::default();
    let err = Arc::new(std::sync::Mutex::new(None::<String>));
    let acc_co = x.rng.chance(3, 4);
    let lfd = listener.as_raw_fd() as u64;
    {
        let (err, grave) = (err.clone(), grave.clone());
        x.spawn("acceptor", acc_co, move |a| {
            let mut hs = vec![];
            for i in 0..n {
                a.call("accept", lfd);
                match listener.accept() {
                    Ok((mut s, _)) => {
                        a.ret("accept", lfd, i as u64);
                        let (err, grave) = (err.clone(), grave.clone());
                        // echo handler
                        hs.push(go!(move || {
                            let mut buf = vec![0u8; 3000];
                            loop {
                                match s.read(&mut buf) {
                                    Ok(0) => break,
                                    Ok(k) => {
                                        if let Err(e) = s.write_all(&buf[..k]) {
                                            *err.lock().unwrap() = Some(format!("echo write error {:?}", e));
                                            break;
                                        }
                                    }
                                    Err(e) => {
                                        *err.lock().unwrap() = Some(format!("echo read error {:?}", e));
                                        break;
                                    }
                                }
                            }
                            s.shutdown(std::net::Shutdown::Write).ok();
                            grave.lock().unwrap().push(Box::new(s));
                        }));
                    }
                    Err(e) => {
                        *err.lock().unwrap() = Some(format!("accept error {:?}", e));
                        return;
                    }
                }
            }
            for h in hs {
                if a.is_co() {
                    let _ = h.join();
                } else {
                    while !h.is_done() {
                        std::thread::sleep(Duration::from_micros(100));
                    }
                }
            }
            grave.lock().unwrap().push(Box::new(listener));
        });
    }
    for i in 0..n {
        let (err, grave) = (err.clone(), grave.clone());
        let is_co = x.rng.chance(3, 4);
        let total = x.rng.below(if x.thorough { 200_000 } else { 30_000 }) as usize;
        let mut r = x.rng.fork();
        let delay = x.rng.below(1500);
        x.spawn(&format!("client{}", i), is_co, move |a| {
            nap(delay);
            a.call("connect", 0);
            let s = match TcpStream::connect(addr) {
                Ok(s) => s,
                Err(e) => {
                    *err.lock().unwrap() = Some(format!("connect error {:?}", e));
                    return;
                }
            };
            a.ret("connect", 0, 0);
            let mut wr = Stream::Tcp(s.try_clone().unwrap());
            let mut rd = Stream::Tcp(s);
            // writer half on another coroutine (split I/O), reader here
            let e2 = err.clone();
            let a2 = a.clone();
            let mut r2 = r.fork();
            let g2 = grave.clone();
            let wh = go!(move || {
                write_stream(&a2, &mut wr, total, &mut r2, &e2);
                g2.lock().unwrap().push(Box::new(wr));
            });
            read_stream(a, &mut rd, total, &mut r, None, &err);
            if a.is_co() {
                let _ = wh.join();
            } else {
                while !wh.is_done() {
                    std::thread::sleep(Duration::from_micros(100));
                }
            }
            grave.lock().unwrap().push(Box::new(rd));
        });
    }
    x.desc = format!("tcp echo: {} connections over {} acceptor_co={}", n, addr, acc_co);
    let r = x.wait_all();
    io_verdict(x, r)?;
    grave.lock().unwrap().clear();
    if let Some(e) = err.lock().unwrap().take() {
        return viol(format!("tcp echo: {}", e));
    }
    Ok(())
}

// ------------------------------------------------------------------------------------ C17 datagrams
fn dgram(x: &mut Exec) -> Res {
    let unix = x.rng.chance(1, 2);
    let n = x.rng.range(1, if x.thorough { 200 } else { 40 }) as usize;
    let err = Arc::new(std::sync::Mutex::new(None::<String>));
    let grave: Grave = Default::default();
    let sender_done = Arc::new(AtomicBool::new(false));
    let lens: Vec<usize> = (0..n).map(|_| if x.rng.chance(1, 10) { 0 } else { x.rng.range(1, 1400) as usize }).collect();
    let mk = |seq: usize, len: usize| -> Vec<u8> {
        let mut v = vec![0u8; len + 4];
        v[..4].copy_from_slice(&(seq as u32).to_le_bytes());
        for (k, b) in v[4..].iter_mut().enumerate() {
            *b = byte_at(seq * 7919 + k);
        }
        v
    };
    let received = Arc::new(AtomicUsize::new(0));
    let (s_co, r_co) = (x.rng.chance(1, 2), x.rng.chance(3, 4));
    x.io_timeout_used(Duration::from_millis(5));
    if unix {
        let (a, b) = UnixDatagram::pair().map_err(|e| Fail::Inconclusive(format!("pair: {}", e)))?;
        let (lens2, sd, g1) = (lens.clone(), sender_done.clone(), grave.clone());
        let mut r = x.rng.fork();
        let e1 = err.clone();
        x.spawn("sender", s_co, move |act| {
            let fd = a.as_raw_fd() as u64;
            for (seq, len) in lens2.iter().enumerate() {
                act.call("send", fd);
                match a.send(&mk(seq, *len)) {
                    Ok(k) if k == len + 4 => {}
                    Ok(k) => *e1.lock().unwrap() = Some(format!("datagram {} sent truncated: {} of {}", seq, k, len + 4)),
                    Err(e) => *e1.lock().unwrap() = Some(format!("send error {:?}", e)),
                }
                act.ret("send", fd, seq as u64);
                if r.chance(1, 5) {
                    nap(r.below(300));
                }
            }
            sd.store(true, SeqCst);
            g1.lock().unwrap().push(Box::new(a));
        });
        let (lens2, sd, g2, e2, rc) = (lens.clone(), sender_done.clone(), grave.clone(), err.clone(), received.clone());
        x.spawn("receiver", r_co, move |act| {
            let fd = b.as_raw_fd() as u64;
            b.set_read_timeout(Some(Duration::from_millis(5))).unwrap();
            let mut seen = vec![false; lens2.len()];
            let mut buf = vec![0u8; 2048];
            let mut next = 0usize;
            loop {
                let done_before = sd.load(SeqCst);
                act.call("recv", fd);
                match b.recv(&mut buf) {
                    Ok(k) => {
                        act.ret("recv", fd, k as u64);
                        if k < 4 {
                            *e2.lock().unwrap() = Some(format!("datagram of {} bytes received, nothing that short was sent", k));
                            break;
                        }
                        let seq = u32::from_le_bytes([buf[0], buf[1], buf[2], buf[3]]) as usize;
                        if seq >= lens2.len() || buf[..k] != mk(seq, lens2[seq])[..] {
                            *e2.lock().unwrap() = Some(format!("received datagram (seq {} len {}) equals no sent datagram (truncated or merged)", seq, k));
                            break;
                        }
                        if seen[seq] {
                            *e2.lock().unwrap() = Some(format!("datagram {} received twice", seq));
                        }
                        // a unix datagram socket pair is reliable and ordered
                        if seq != next {
                            *e2.lock().unwrap() = Some(format!("unix datagram {} arrived when {} was expected", seq, next));
                        }
                        next = seq + 1;
                        seen[seq] = true;
                        rc.fetch_add(1, SeqCst);
                        if next == lens2.len() {
                            break;
                        }
                    }
                    Err(e) if e.kind() == std::io::ErrorKind::TimedOut || e.kind() == std::io::ErrorKind::WouldBlock => {
                        act.ret("recv", fd, u64::MAX);
                        if done_before && sd.load(SeqCst) {
                            // nothing arrived for a whole timeout after the sender finished
                            if !kernel_ready(fd as i32, true) {
                                *e2.lock().unwrap() = Some(format!("unix datagrams lost: {} of {} received", next, lens2.len()));
                                break;
                            }
                        }
                    }
                    Err(e) => {
                        *e2.lock().unwrap() = Some(format!("recv error {:?}", e));
                        break;
                    }
                }
            }
            g2.lock().unwrap().push(Box::new(b));
        });
    } else {
        let a = UdpSocket::bind(lo0()).map_err(|e| Fail::Inconclusive(format!("bind: {}", e)))?;
        let b = UdpSocket::bind(lo0()).map_err(|e| Fail::Inconclusive(format!("bind: {}", e)))?;
        let baddr = b.local_addr().unwrap();
        let (lens2, sd, g1) = (lens.clone(), sender_done.clone(), grave.clone());
        let mut r = x.rng.fork();
        let e1 = err.clone();
        x.spawn("sender", s_co, move |act| {
            let fd = a.as_raw_fd() as u64;
            for (seq, len) in lens2.iter().enumerate() {
                act.call("send", fd);
                match a.send_to(&mk(seq, *len), baddr) {
                    Ok(k) if k == len + 4 => {}
                    Ok(k) => *e1.lock().unwrap() = Some(format!("datagram {} sent truncated: {} of {}", seq, k, len + 4)),
                    Err(e) => *e1.lock().unwrap() = Some(format!("send_to error {:?}", e)),
                }
                act.ret("send", fd, seq as u64);
                if r.chance(1, 5) {
                    nap(r.below(300));
                }
            }
            sd.store(true, SeqCst);
            g1.lock().unwrap().push(Box::new(a));
        });
        let (lens2, sd, g2, e2, rc) = (lens.clone(), sender_done.clone(), grave.clone(), err.clone(), received.clone());
        x.spawn("receiver", r_co, move |act| {
            let fd = b.as_raw_fd() as u64;
            b.set_read_timeout(Some(Duration::from_millis(5))).unwrap();
            let mut seen = vec![false; lens2.len()];
            let mut buf = vec![0u8; 2048];
            loop {
                let done_before = sd.load(SeqCst);
                act.call("recv_from", fd);
                match b.recv_from(&mut buf) {
                    Ok((k, _)) => {
                        act.ret("recv_from", fd, k as u64);
                        if k < 4 {
                            *e2.lock().unwrap() = Some(format!("datagram of {} bytes received, nothing that short was sent", k));
                            break;
                        }
                        let seq = u32::from_le_bytes([buf[0], buf[1], buf[2], buf[3]]) as usize;
                        if seq >= lens2.len() || buf[..k] != mk(seq, lens2[seq])[..] {
                            *e2.lock().unwrap() = Some(format!("received datagram (seq {} len {}) equals no sent datagram (truncated or merged)", seq, k));
                            break;
                        }
                        if seen[seq] {
                            *e2.lock().unwrap() = Some(format!("datagram {} received twice", seq));
                        }
                        seen[seq] = true;
                        if rc.fetch_add(1, SeqCst) + 1 == lens2.len() {
                            break;
                        }
                    }
                    Err(e) if e.kind() == std::io::ErrorKind::TimedOut || e.kind() == std::io::ErrorKind::WouldBlock => {
                        act.ret("recv_from", fd, u64::MAX);
                        // UDP may lose datagrams: stop one quiet timeout after the sender finished
                        if done_before && !kernel_ready(fd as i32, true) {
                            break;
                        }
                    }
                    Err(e) => {
                        *e2.lock().unwrap() = Some(format!("recv_from error {:?}", e));
                        break;
                    }
                }
            }
            g2.lock().unwrap().push(Box::new(b));
        });
    }
    x.desc = format!("{} datagrams n={} sender={} receiver={}", if unix { "unix" } else { "udp" }, n, if s_co { "co" } else { "th" }, if r_co { "co" } else { "th" });
    let r = x.wait_all();
    io_verdict(x, r)?;
    grave.lock().unwrap().clear();
    if let Some(e) = err.lock().unwrap().take() {
        return viol(format!("datagram I/O: {}", e));
    }
    x.passive_actor("summary").note("received", received.load(SeqCst) as u64, n as u64);
    Ok(())
}

// ------------------------------------------------------------------------------------ C18 timed read sequences
fn iot(x: &mut Exec) -> Res {
    let use_tcp = x.rng.chance(1, 3);
    let (a, b) = if use_tcp {
        let (a, b) = tcp_pair().map_err(|e| Fail::Inconclusive(format!("tcp_pair: {}", e)))?;
        (Stream::Tcp(a), Stream::Tcp(b))
    } else {
        let (a, b) = UnixStream::pair().map_err(|e| Fail::Inconclusive(format!("pair: {}", e)))?;
        (Stream::Unix(a), Stream::Unix(b))
    };
    let grave: Grave = Default::default();
    let err = Arc::new(std::sync::Mutex::new(None::<String>));
    let ops = x.rng.range(2, 6) as usize;
    let (r_co, w_co) = (x.rng.chance(3, 4), x.rng.chance(1, 2));
    // (timeout in µs, arrival: None = never, Some(µs after the read was issued))
    let plan: Vec<(u64, Option<u64>)> = (0..ops)
        .map(|_| {
            let d = *x.rng.pick(&[500u64, 1000, 1700, 2000, 3000, 5000]);
            let arr = match x.rng.below(5) {
                0 => None,
                1 => Some(d / 4),
                2 => Some(d.saturating_sub(150)),
                3 => Some(d + 300),
                _ => Some(0),
            };
            (d, arr)
        })
        .collect();
    for p in &plan {
        x.io_timeout_used(Duration::from_micros(p.0));
    }
    let (go_tx, go_rx) = may::sync::mpsc::channel::<Option<u64>>();
    let g1 = grave.clone();
    // bytes whose write() has returned: a read that was *called* afterwards and still times out
    // had data in the kernel during its whole life, whatever the machine load
    let written = Arc::new(AtomicUsize::new(0));
    let w2 = written.clone();
    x.spawn("writer", w_co, move |act| {
        let mut a = a;
        let fd = a.fd() as u64;
        let mut k = 0u8;
        while let Ok(cmd) = go_rx.recv() {
            if let Some(us) = cmd {
                nap(us);
                act.call("write", fd);
                if a.write_all(&[k]).is_err() {
                    break;
                }
                w2.fetch_add(1, SeqCst);
                act.ret("write", fd, k as u64);
                k = k.wrapping_add(1);
            }
        }
        g1.lock().unwrap().push(Box::new(a));
    });
    let (p2, e2, g2) = (plan.clone(), err.clone(), grave.clone());
    let perturbed = x.perturbed;
    x.spawn("reader", r_co, move |act| {
        let mut b = b;
        let fd = b.fd() as u64;
        let mut pending = 0usize;
        let mut next = 0u8;
        let mut received = 0usize;
        let mut buf = [0u8; 16];
        for (d, send_after) in p2 {
            b.set_read_timeout(Some(Duration::from_micros(d)));
            go_tx.send(send_after).unwrap();
            if send_after.is_some() {
                pending += 1;
            }
            let t0 = Instant::now();
            let avail0 = written.load(SeqCst);
            act.call("read", fd);
            let r = b.read(&mut buf);
            let el = t0.elapsed();
            match r {
                Ok(n) if n > 0 => {
                    act.ret("read", fd, n as u64);
                    for &v in &buf[..n] {
                        if v != next {
                            *e2.lock().unwrap() = Some(format!("byte {} received when {} was expected", v, next));
                            return;
                        }
                        next = next.wrapping_add(1);
                    }
                    received += n;
                    pending = pending.saturating_sub(n);
                }
                Ok(_) => {
                    *e2.lock().unwrap() = Some("read returned 0 (EOF) while the writer is alive".into());
                    return;
                }
                Err(e) if e.kind() == std::io::ErrorKind::TimedOut || e.kind() == std::io::ErrorKind::WouldBlock => {
                    act.ret("read", fd, u64::MAX);
                    if el < Duration::from_micros(d) {
                        *e2.lock().unwrap() = Some(format!("read timeout of {}us fired after {:?} (armed by this or an earlier operation)", d, el));
                        return;
                    }
                    // a byte whose write had returned before this read was called was in the
                    // kernel all the time: the read must deliver it, not time out
                    if avail0 > received {
                        *e2.lock().unwrap() = Some(format!("read({}us) timed out although {} byte(s) had been written before it was called (missed readiness)", d, avail0 - received));
                        return;
                    }
                    let _ = (send_after, perturbed);
                }
                Err(e) => {
                    *e2.lock().unwrap() = Some(format!("read error {:?}", e));
                    return;
                }
            }
        }
        // after the time-outs the socket must still carry data correctly
        b.set_read_timeout(Some(Duration::from_millis(30)));
        go_tx.send(Some(0)).unwrap();
        pending += 1;
        let mut rounds = 0;
        while pending > 0 {
            let avail0 = written.load(SeqCst);
            act.call("read", fd);
            match b.read(&mut buf) {
                Ok(n) if n > 0 => {
                    act.ret("read", fd, n as u64);
                    for &v in &buf[..n] {
                        if v != next {
                            *e2.lock().unwrap() = Some(format!("after time-outs: byte {} received when {} was expected", v, next));
                            return;
                        }
                        next = next.wrapping_add(1);
                    }
                    received += n;
                    pending = pending.saturating_sub(n);
                }
                Ok(_) => {
                    *e2.lock().unwrap() = Some("EOF while bytes were in flight".into());
                    break;
                }
                Err(_) => {
                    act.ret("read", fd, u64::MAX);
                    if avail0 > received {
                        *e2.lock().unwrap() = Some(format!("socket unusable after time-outs: {} byte(s) had been written before a 30ms read was called, yet it timed out", avail0 - received));
                        break;
                    }
                    // the writer is merely slow (machine load): try again, bounded
                    rounds += 1;
                    if rounds > 100 {
                        break;
                    }
                }
            }
        }
        drop(go_tx);
        g2.lock().unwrap().push(Box::new(b));
    });
    x.desc = format!("{} timed read sequence (timeout_us, arrival_us)={:?} reader={} writer={}", if use_tcp { "tcp" } else { "unix" }, plan, if r_co { "co" } else { "th" }, if w_co { "co" } else { "th" });
    let r = x.wait_all();
    io_verdict(x, r)?;
    grave.lock().unwrap().clear();
    if let Some(e) = err.lock().unwrap().take() {
        return viol(format!("timed I/O: {}", e));
    }
    Ok(())
}

// ------------------------------------------------------------------------------------ C18 / C09 cancel of blocked I/O
fn iocan(x: &mut Exec) -> Res {
    // 0 unix stream read, 1 tcp accept, 2 udp recv_from, 3 udp recv (SocketRead), 4 tcp stream read, 5 unix datagram
    // recv_from, 6 unix accept: one per `subscribe` that registers with the cancel data. Writes / sends do not (a
    // coroutine blocked in write() against a full buffer is not cancellable in may, and C09/C18 do not list it: a first
    // version of this scenario that demanded it was asking for more than the property states)
    let kind = if x.rng.chance(1, 8) { 2 } else { x.rng.below(7) };
    let err = Arc::new(std::sync::Mutex::new(None::<String>));
    let grave: Grave = Default::default();
    let reg = DropReg::new(2);
    let peer: Option<UnixStream>;
    let (_, target) = match kind {
        0 => {
            let (a, b) = UnixStream::pair().map_err(|e| Fail::Inconclusive(format!("pair: {}", e)))?;
            peer = Some(a);
            let reg = reg.clone();
            x.spawn_co("target", move |act| {
                let _t = Tracked::new(&reg, 0);
                let mut b = b; // owned by the coroutine: closed when the cancel unwinds
                let mut buf = [0u8; 8];
                act.call("read", b.as_raw_fd() as u64);
                let _ = b.read(&mut buf);
                act.ret("read", 0, 0);
                loop {
                    coroutine::park();
                }
            })
        }
        1 => {
            peer = None;
            let l = TcpListener::bind(lo0()).map_err(|e| Fail::Inconclusive(format!("bind: {}", e)))?;
            let reg = reg.clone();
            x.spawn_co("target", move |act| {
                let _t = Tracked::new(&reg, 0);
                act.call("accept", l.as_raw_fd() as u64);
                let _ = l.accept();
                act.ret("accept", 0, 0);
                loop {
                    coroutine::park();
                }
            })
        }
        3 => {
            peer = None;
            let s = UdpSocket::bind(lo0()).map_err(|e| Fail::Inconclusive(format!("bind: {}", e)))?;
            s.connect(lo0().replace(":0", ":9")).ok();
            let reg = reg.clone();
            x.spawn_co("target", move |act| {
                let _t = Tracked::new(&reg, 0);
                let mut buf = [0u8; 8];
                act.call("recv", s.as_raw_fd() as u64);
                let _ = s.recv(&mut buf);
                act.ret("recv", 0, 0);
                loop {
                    coroutine::park();
                }
            })
        }
        4 => {
            peer = None;
            let (a, b) = tcp_pair().map_err(|e| Fail::Inconclusive(format!("tcp_pair: {}", e)))?;
            grave.lock().unwrap().push(Box::new(a));
            let reg = reg.clone();
            x.spawn_co("target", move |act| {
                let _t = Tracked::new(&reg, 0);
                let mut b = b;
                let mut buf = [0u8; 8];
                act.call("read", b.as_raw_fd() as u64);
                let _ = b.read(&mut buf);
                act.ret("read", 0, 0);
                loop {
                    coroutine::park();
                }
            })
        }
        5 => {
            peer = None;
            let (a, b) = may::os::unix::net::UnixDatagram::pair().map_err(|e| Fail::Inconclusive(format!("pair: {}", e)))?;
            grave.lock().unwrap().push(Box::new(a));
            let reg = reg.clone();
            x.spawn_co("target", move |act| {
                let _t = Tracked::new(&reg, 0);
                let mut buf = [0u8; 8];
                act.call("recv_from", b.as_raw_fd() as u64);
                let _ = b.recv_from(&mut buf);
                act.ret("recv_from", 0, 0);
                loop {
                    coroutine::park();
                }
            })
        }
        6 => {
            peer = None;
            let path = std::env::temp_dir().join(format!("mayverif-iocan-{}-{}.sock", std::process::id(), x.seed));
            let _ = std::fs::remove_file(&path);
            let l = may::os::unix::net::UnixListener::bind(&path).map_err(|e| Fail::Inconclusive(format!("bind: {}", e)))?;
            let reg = reg.clone();
            x.spawn_co("target", move |act| {
                let _t = Tracked::new(&reg, 0);
                let _rm = OnDrop(Some(move || {
                    let _ = std::fs::remove_file(&path);
                }));
                act.call("accept", l.as_raw_fd() as u64);
                let _ = l.accept();
                act.ret("accept", 0, 0);
                loop {
                    coroutine::park();
                }
            })
        }
        _ => {
            peer = None;
            let s = UdpSocket::bind(lo0()).map_err(|e| Fail::Inconclusive(format!("bind: {}", e)))?;
            let reg = reg.clone();
            x.spawn_co("target", move |act| {
                let _t = Tracked::new(&reg, 0);
                let mut buf = [0u8; 8];
                act.call("recv_from", s.as_raw_fd() as u64);
                let _ = s.recv_from(&mut buf);
                act.ret("recv_from", 0, 0);
                loop {
                    coroutine::park();
                }
            })
        }
    };
    // a bystander echo session runs meanwhile and must not be disturbed
    {
        let (a, b) = UnixStream::pair().map_err(|e| Fail::Inconclusive(format!("pair: {}", e)))?;
        let total = x.rng.below(20_000) as usize;
        let (mut r1, mut r2) = (x.rng.fork(), x.rng.fork());
        let (e1, e2, g1, g2) = (err.clone(), err.clone(), grave.clone(), grave.clone());
        x.spawn("by-writer", true, move |act| {
            let mut a = Stream::Unix(a);
            write_stream(act, &mut a, total, &mut r1, &e1);
            g1.lock().unwrap().push(Box::new(a));
        });
        x.spawn("by-reader", true, move |act| {
            let mut b = Stream::Unix(b);
            read_stream(act, &mut b, total, &mut r2, None, &e2);
            g2.lock().unwrap().push(Box::new(b));
        });
    }
    let at = x.rng.below(900);
    x.desc = format!("cancel a coroutine blocked in {} (cancel at FIRE or <= {}us) beside a bystander transfer", ["unix stream read", "tcp accept", "udp recv_from", "udp recv", "tcp stream read", "unix datagram recv_from", "unix accept"][kind as usize], at);
    wait_fire(at);
    unsafe { target.coroutine().cancel() };
    let t2 = &target;
    let r = x.wait_cond(&|| t2.is_done());
    cancelled_must_end(r)?;
    match target.join() {
        Err(e) if is_cancel_panic(&e) => {}
        Err(_) => return viol("cancel of blocked I/O: join() reported a non-Cancel panic"),
        Ok(_) => return viol("cancel of blocked I/O: join() of the cancelled endless target returned Ok"),
    }
    let r = x.wait_all();
    io_verdict(x, r)?;
    if reg.count(0) != 1 {
        return viol(format!("cancel of blocked I/O: stack-owned value dropped {} times", reg.count(0)));
    }
    if let Some(mut p) = peer {
        // the peer of the socket owned by the cancelled coroutine sees it closed
        p.set_read_timeout(Some(Duration::from_millis(200))).unwrap();
        let mut buf = [0u8; 4];
        match p.read(&mut buf) {
            Ok(0) => {}
            Ok(_) => return viol("peer read data nobody wrote"),
            Err(e) if e.kind() == std::io::ErrorKind::ConnectionReset => {}
            Err(e) => return viol(format!("the socket owned by the cancelled coroutine was not closed (peer read: {:?})", e.kind())),
        }
    }
    grave.lock().unwrap().clear();
    if let Some(e) = err.lock().unwrap().take() {
        return viol(format!("bystander I/O disturbed by the cancel: {}", e));
    }
    Ok(())
}

// ------------------------------------------------------------------------------------ C17 / C18: the rest of the socket API
/// generic writer / reader over anything that is Write / Read (split halves, CoIo): the same deterministic stream
fn write_gen<W: Write>(a: &Actor, w: &mut W, fd: u64, total: usize, r: &mut Rng, err: &std::sync::Mutex<Option<String>>) {
    let mut sent = 0usize;
    while sent < total {
        let big = r.chance(1, 8);
        let n = (1 + r.below(if big { 120_000 } else { 6000 }) as usize).min(total - sent);
        let buf: Vec<u8> = (sent..sent + n).map(byte_at).collect();
        a.call("write", fd);
        if let Err(e) = w.write_all(&buf) {
            *err.lock().unwrap() = Some(format!("write error {:?}", e));
            return;
        }
        a.ret("write", fd, n as u64);
        sent += n;
        if r.chance(1, 6) {
            nap(r.below(600));
        }
    }
}
fn read_gen<R: Read>(a: &Actor, rd: &mut R, fd: u64, total: usize, r: &mut Rng, err: &std::sync::Mutex<Option<String>>) {
    let mut got = 0usize;
    loop {
        let big = r.chance(1, 8);
        let mut buf = vec![0u8; 1 + r.below(if big { 90_000 } else { 5000 }) as usize];
        a.call("read", fd);
        match rd.read(&mut buf) {
            Ok(0) => {
                a.ret("read", fd, 0);
                break;
            }
            Ok(n) => {
                a.ret("read", fd, n as u64);
                for k in 0..n {
                    if buf[k] != byte_at(got + k) {
                        *err.lock().unwrap() = Some(format!("stream corrupted at offset {} (got {:#x}, want {:#x})", got + k, buf[k], byte_at(got + k)));
                        return;
                    }
                }
                got += n;
                if r.chance(1, 5) {
                    nap(r.below(400));
                }
            }
            Err(e) => {
                *err.lock().unwrap() = Some(format!("read error {:?}", e));
                return;
            }
        }
    }
    if got != total {
        *err.lock().unwrap() = Some(format!("end of stream after {} of {} bytes", got, total));
    }
}

/// a listening TCP socket whose accept queue is full: further connects neither succeed nor fail, they wait
fn full_backlog_listener() -> std::io::Result<(std::net::TcpListener, Vec<std::net::TcpStream>, std::net::SocketAddr)> {
    use std::os::unix::io::FromRawFd;
    unsafe {
        let fd = libc::socket(libc::AF_INET, libc::SOCK_STREAM | libc::SOCK_CLOEXEC, 0);
        if fd < 0 {
            return Err(std::io::Error::last_os_error());
        }
        let l = std::net::TcpListener::from_raw_fd(fd);
        let ip: std::net::Ipv4Addr = lo().parse().unwrap();
        let sa = libc::sockaddr_in { sin_family: libc::AF_INET as u16, sin_port: 0, sin_addr: libc::in_addr { s_addr: u32::from_ne_bytes(ip.octets()) }, sin_zero: [0; 8] };
        if libc::bind(fd, &sa as *const _ as *const libc::sockaddr, std::mem::size_of::<libc::sockaddr_in>() as u32) != 0 || libc::listen(fd, 0) != 0 {
            return Err(std::io::Error::last_os_error());
        }
        let addr = l.local_addr()?;
        // fill the queue (backlog 0 admits one connection; the ones after it get their SYN dropped): plain non-blocking connects
        let mut fillers = vec![];
        for _ in 0..3 {
            let s = libc::socket(libc::AF_INET, libc::SOCK_STREAM | libc::SOCK_NONBLOCK | libc::SOCK_CLOEXEC, 0);
            if s < 0 {
                return Err(std::io::Error::last_os_error());
            }
            let st = std::net::TcpStream::from_raw_fd(s);
            let port = addr.port().to_be();
            let sa2 = libc::sockaddr_in { sin_family: libc::AF_INET as u16, sin_port: port, sin_addr: libc::in_addr { s_addr: u32::from_ne_bytes(ip.octets()) }, sin_zero: [0; 8] };
            libc::connect(s, &sa2 as *const _ as *const libc::sockaddr, std::mem::size_of::<libc::sockaddr_in>() as u32);
            fillers.push(st);
        }
        std::thread::sleep(Duration::from_millis(2));
        Ok((l, fillers, addr))
    }
}

fn ioext(x: &mut Exec) -> Res {
    use may::io::{CoIo, SplitIo, WaitIo};
    let kind = x.rng.below(6);
    let err = Arc::new(std::sync::Mutex::new(None::<String>));
    let grave: Grave = Default::default();
    match kind {
        // ---- split(): both directions of one connection at once, four parties
        0 | 1 => {
            let use_tcp = kind == 0;
            let (t1, t2) = (x.rng.below(if x.thorough { 300_000 } else { 50_000 }) as usize, x.rng.below(if x.thorough { 300_000 } else { 50_000 }) as usize);
            let sb = *x.rng.pick(&[4608, 8192, 0]);
            let cos: Vec<bool> = (0..4).map(|_| x.rng.chance(3, 4)).collect();
            x.desc = format!("split() full duplex over {}: {} bytes one way, {} the other, sndbuf {}, parties co={:?}", if use_tcp { "tcp" } else { "unix-stream" }, t1, t2, sb, cos);
            macro_rules! duplex {
                ($a:expr, $b:expr, $shut:expr) => {{
                    let (a, b) = ($a, $b);
                    if sb != 0 {
                        set_sndbuf(a.as_raw_fd(), sb);
                        set_sndbuf(b.as_raw_fd(), sb);
                    }
                    let (ar, aw) = a.split().map_err(|e| Fail::Inconclusive(format!("split: {}", e)))?;
                    let (br, bw) = b.split().map_err(|e| Fail::Inconclusive(format!("split: {}", e)))?;
                    let (mut r1, mut r2, mut r3, mut r4) = (x.rng.fork(), x.rng.fork(), x.rng.fork(), x.rng.fork());
                    let (e1, e2, e3, e4) = (err.clone(), err.clone(), err.clone(), err.clone());
                    let (g1, g2, g3, g4) = (grave.clone(), grave.clone(), grave.clone(), grave.clone());
                    x.spawn("a-writer", cos[0], move |act| {
                        let mut w = aw;
                        let fd = w.as_raw_fd() as u64;
                        write_gen(act, &mut w, fd, t1, &mut r1, &e1);
                        $shut(w.inner());
                        g1.lock().unwrap().push(Box::new(w));
                    });
                    x.spawn("b-reader", cos[1], move |act| {
                        let mut r = br;
                        let fd = r.as_raw_fd() as u64;
                        read_gen(act, &mut r, fd, t1, &mut r2, &e2);
                        g2.lock().unwrap().push(Box::new(r));
                    });
                    x.spawn("b-writer", cos[2], move |act| {
                        let mut w = bw;
                        let fd = w.as_raw_fd() as u64;
                        write_gen(act, &mut w, fd, t2, &mut r3, &e3);
                        $shut(w.inner());
                        g3.lock().unwrap().push(Box::new(w));
                    });
                    x.spawn("a-reader", cos[3], move |act| {
                        let mut r = ar;
                        let fd = r.as_raw_fd() as u64;
                        read_gen(act, &mut r, fd, t2, &mut r4, &e4);
                        g4.lock().unwrap().push(Box::new(r));
                    });
                }};
            }
            if use_tcp {
                let (a, b) = tcp_pair().map_err(|e| Fail::Inconclusive(format!("tcp_pair: {}", e)))?;
                duplex!(a, b, |s: &TcpStream| {
                    s.shutdown(std::net::Shutdown::Write).ok();
                });
            } else {
                let (a, b) = UnixStream::pair().map_err(|e| Fail::Inconclusive(format!("pair: {}", e)))?;
                duplex!(a, b, |s: &UnixStream| {
                    s.shutdown(std::net::Shutdown::Write).ok();
                });
            }
        }
        // ---- peek: looks without taking, blocks like read, 0 at end of stream
        2 => {
            let total = x.rng.range(1, if x.thorough { 60_000 } else { 12_000 }) as usize;
            let (a, b) = tcp_pair().map_err(|e| Fail::Inconclusive(format!("tcp_pair: {}", e)))?;
            let (w_co, r_co) = (x.rng.chance(1, 2), x.rng.chance(3, 4));
            x.desc = format!("tcp peek/read alternation over {} bytes, writer {}, reader {}", total, if w_co { "co" } else { "th" }, if r_co { "co" } else { "th" });
            let (mut r1, mut r2) = (x.rng.fork(), x.rng.fork());
            let (e1, e2, g1, g2) = (err.clone(), err.clone(), grave.clone(), grave.clone());
            x.spawn("writer", w_co, move |act| {
                let mut a = a;
                let fd = a.as_raw_fd() as u64;
                write_gen(act, &mut a, fd, total, &mut r1, &e1);
                a.shutdown(std::net::Shutdown::Write).ok();
                g1.lock().unwrap().push(Box::new(a));
            });
            x.spawn("reader", r_co, move |act| {
                let mut b = b;
                let fd = b.as_raw_fd() as u64;
                let mut got = 0usize;
                loop {
                    let mut pb = vec![0u8; 1 + r2.below(3000) as usize];
                    act.call("recv", fd); // peek: a receive-side call for the kernel-view oracle
                    let n = match b.peek(&mut pb) {
                        Ok(n) => n,
                        Err(e) => {
                            *e2.lock().unwrap() = Some(format!("peek error {:?}", e));
                            return;
                        }
                    };
                    act.ret("recv", fd, n as u64);
                    if n == 0 {
                        break;
                    }
                    for k in 0..n {
                        if pb[k] != byte_at(got + k) {
                            *e2.lock().unwrap() = Some(format!("peek at offset {} shows {:#x}, the stream has {:#x} there", got + k, pb[k], byte_at(got + k)));
                            return;
                        }
                    }
                    // what was peeked is still there: take some of it
                    let take = 1 + r2.below(n as u64) as usize;
                    let mut rb = vec![0u8; take];
                    act.call("read", fd);
                    match b.read(&mut rb) {
                        Ok(m) if m >= 1 && m <= take => {
                            act.ret("read", fd, m as u64);
                            if rb[..m] != pb[..m] {
                                *e2.lock().unwrap() = Some(format!("read after peek at offset {} returned other bytes than the peek", got));
                                return;
                            }
                            got += m;
                        }
                        other => {
                            *e2.lock().unwrap() = Some(format!("read of {} bytes after a peek that showed {} returned {:?}", take, n, other.map_err(|e| e.kind())));
                            return;
                        }
                    }
                }
                if got != total {
                    *e2.lock().unwrap() = Some(format!("peek reported end of stream after {} of {} bytes", got, total));
                }
                g2.lock().unwrap().push(Box::new(b));
            });
        }
        // ---- connect_timeout: against a full accept queue it must fail, not early and not never; against a live one it connects
        3 => {
            let d_ms = x.rng.range(2, 12);
            let n = x.rng.range(1, 3) as usize;
            x.io_timeout_used(Duration::from_millis(d_ms));
            x.desc = format!("connect_timeout({}ms) x{} against a listener whose accept queue is full, then against a live one", d_ms, n);
            let (l, fillers, addr) = full_backlog_listener().map_err(|e| Fail::Inconclusive(format!("full_backlog_listener: {}", e)))?;
            // is the queue really full? a std connect with a short timeout must not get through
            if std::net::TcpStream::connect_timeout(&addr, Duration::from_millis(30)).is_ok() {
                return Err(Fail::Inconclusive("the accept queue of the probe listener did not fill up".into()));
            }
            grave.lock().unwrap().push(Box::new((l, fillers)));
            let live = TcpListener::bind(lo0()).map_err(|e| Fail::Inconclusive(format!("bind: {}", e)))?;
            let live_addr = live.local_addr().unwrap();
            let e1 = err.clone();
            x.spawn("acceptor", true, move |act| {
                for _ in 0..n {
                    act.call("accept", live.as_raw_fd() as u64);
                    match live.accept() {
                        Ok((mut s, _)) => {
                            act.ret("accept", 0, 1);
                            let _ = s.write_all(b"k");
                        }
                        Err(e) => {
                            *e1.lock().unwrap() = Some(format!("accept error {:?}", e));
                            return;
                        }
                    }
                }
            });
            for i in 0..n {
                let e2 = err.clone();
                let is_co = x.rng.chance(3, 4);
                x.spawn(&format!("client{}", i), is_co, move |act| {
                    let t0 = Instant::now();
                    act.call("connect_timeout", d_ms);
                    let r = TcpStream::connect_timeout(&addr, Duration::from_millis(d_ms));
                    let el = t0.elapsed();
                    act.ret("connect_timeout", d_ms, r.is_ok() as u64);
                    match r {
                        Ok(_) => *e2.lock().unwrap() = Some("connect_timeout succeeded against a listener whose accept queue is full".into()),
                        Err(e) if e.kind() == std::io::ErrorKind::TimedOut => {
                            if el < Duration::from_millis(d_ms) {
                                *e2.lock().unwrap() = Some(format!("connect_timeout({}ms) failed with TimedOut after {:?}", d_ms, el));
                            }
                        }
                        Err(e) => *e2.lock().unwrap() = Some(format!("connect_timeout against a full accept queue failed with {:?} instead of TimedOut", e.kind())),
                    }
                    // the same caller connects to a live listener with a generous timeout: must get through and read the greeting
                    act.call("connect_timeout", 2000);
                    let r = TcpStream::connect_timeout(&live_addr, Duration::from_millis(2000));
                    act.ret("connect_timeout", 2000, r.is_ok() as u64);
                    match r {
                        Ok(mut s) => {
                            let mut b = [0u8; 1];
                            act.call("read", s.as_raw_fd() as u64);
                            let rr = s.read(&mut b);
                            act.ret("read", 0, 0);
                            if !matches!(rr, Ok(1)) || b[0] != b'k' {
                                *e2.lock().unwrap() = Some(format!("greeting after connect_timeout: {:?}", rr.map_err(|e| e.kind())));
                            }
                        }
                        Err(e) => *e2.lock().unwrap() = Some(format!("connect_timeout(2s) to a listener with a waiting acceptor failed: {:?}", e.kind())),
                    }
                });
            }
        }
        // ---- CoIo over a std socket pair: the generic wrapper must carry the stream like the native types
        4 => {
            let total = x.rng.below(if x.thorough { 200_000 } else { 40_000 }) as usize;
            let (a, b) = std::os::unix::net::UnixStream::pair().map_err(|e| Fail::Inconclusive(format!("pair: {}", e)))?;
            let sb = *x.rng.pick(&[4608, 8192, 0]);
            if sb != 0 {
                set_sndbuf(a.as_raw_fd(), sb);
            }
            x.desc = format!("CoIo<std UnixStream> one-way transfer of {} bytes, sndbuf {}", total, sb);
            let a = CoIo::new(a).map_err(|_| Fail::Inconclusive("CoIo::new failed".into()))?;
            let b = CoIo::new(b).map_err(|_| Fail::Inconclusive("CoIo::new failed".into()))?;
            let (mut r1, mut r2) = (x.rng.fork(), x.rng.fork());
            let (e1, e2, g1, g2) = (err.clone(), err.clone(), grave.clone(), grave.clone());
            x.spawn("writer", true, move |act| {
                let mut a = a;
                let fd = a.as_raw_fd() as u64;
                write_gen(act, &mut a, fd, total, &mut r1, &e1);
                a.inner().shutdown(std::net::Shutdown::Write).ok();
                g1.lock().unwrap().push(Box::new(a));
            });
            x.spawn("reader", true, move |act| {
                let mut b = b;
                let fd = b.as_raw_fd() as u64;
                read_gen(act, &mut b, fd, total, &mut r2, &e2);
                g2.lock().unwrap().push(Box::new(b));
            });
        }
        // ---- wait_io: the caller does the non-blocking syscalls itself and only waits through may
        _ => {
            let total = x.rng.range(1, if x.thorough { 100_000 } else { 20_000 }) as usize;
            let (a, b) = std::os::unix::net::UnixStream::pair().map_err(|e| Fail::Inconclusive(format!("pair: {}", e)))?;
            let b = CoIo::new(b).map_err(|_| Fail::Inconclusive("CoIo::new failed".into()))?;
            x.desc = format!("wait_io loop (non-blocking reads by the caller, WaitIo::wait_io on EAGAIN) over {} bytes from a plain thread writer", total);
            let mut r1 = x.rng.fork();
            let (e1, e2, g2) = (err.clone(), err.clone(), grave.clone());
            x.spawn("writer", false, move |act| {
                let mut a = a;
                let fd = a.as_raw_fd() as u64;
                write_gen(act, &mut a, fd, total, &mut r1, &e1);
                a.shutdown(std::net::Shutdown::Write).ok();
                std::thread::sleep(Duration::from_millis(1));
                drop(a);
            });
            x.spawn("reader", true, move |act| {
                let fd = b.as_raw_fd();
                let mut got = 0usize;
                let mut buf = vec![0u8; 3000];
                loop {
                    let n = unsafe { libc::read(fd, buf.as_mut_ptr() as *mut libc::c_void, buf.len()) };
                    if n > 0 {
                        for k in 0..n as usize {
                            if buf[k] != byte_at(got + k) {
                                *e2.lock().unwrap() = Some(format!("stream corrupted at offset {}", got + k));
                                return;
                            }
                        }
                        got += n as usize;
                    } else if n == 0 {
                        break;
                    } else {
                        let e = std::io::Error::last_os_error();
                        if e.kind() != std::io::ErrorKind::WouldBlock {
                            *e2.lock().unwrap() = Some(format!("read error {:?}", e));
                            return;
                        }
                        act.call("read", fd as u64); // suspended until readable: judged by the kernel-view oracle like a read
                        b.wait_io();
                        act.ret("read", fd as u64, 0);
                    }
                }
                if got != total {
                    *e2.lock().unwrap() = Some(format!("end of stream after {} of {} bytes", got, total));
                }
                g2.lock().unwrap().push(Box::new(b));
            });
        }
    }
    let r = x.wait_all();
    io_verdict(x, r)?;
    grave.lock().unwrap().clear();
    if let Some(e) = err.lock().unwrap().take() {
        return viol(format!("socket API ({}): {}", ["split tcp", "split unix", "peek", "connect_timeout", "CoIo", "wait_io"][kind as usize], e));
    }
    Ok(())
}

// ------------------------------------------------------------------------------------ C09 / C18: cancel after an earlier socket wait
/// The target has waited on a socket before (and was resumed by the event), now it blocks in something that is not I/O
/// while *another* coroutine is blocked on that same socket. A cancel of the target must reach the target - not whoever
/// sits in the socket it used last - and the other coroutine must neither end nor observe a cancellation.
fn iocanshare(x: &mut Exec) -> Res {
    let sock = Arc::new(UdpSocket::bind(lo0()).map_err(|e| Fail::Inconclusive(format!("bind: {}", e)))?);
    let addr = sock.local_addr().unwrap();
    let sender = std::net::UdpSocket::bind(lo0()).map_err(|e| Fail::Inconclusive(format!("bind: {}", e)))?;
    let errs = Arc::new(std::sync::Mutex::new(Vec::<String>::new()));
    let stage = Arc::new(AtomicUsize::new(0)); // 1: target got its datagram, 2: target about to block in the channel
    let other_in = Arc::new(AtomicBool::new(false));
    let nonio = x.rng.below(3); // what the target blocks in afterwards: mpsc recv, park, semaphore
    let (_tx, rx) = may::sync::mpsc::channel::<u8>();
    let sem = Arc::new(may::sync::Semphore::new(0));
    let (s1, st1, e1) = (sock.clone(), stage.clone(), errs.clone());
    let (_, target) = x.spawn_co("target", move |act| {
        let mut buf = [0u8; 8];
        act.call("recv_from", s1.as_raw_fd() as u64);
        let r = s1.recv_from(&mut buf);
        act.ret("recv_from", 0, r.is_ok() as u64);
        if !matches!(r, Ok((1, _))) || buf[0] != 1 {
            e1.lock().unwrap().push(format!("target: first datagram came as {:?}", r.map(|v| v.0).map_err(|e| e.kind())));
        }
        st1.store(1, SeqCst);
        // give the other coroutine time to get into the socket
        while st1.load(SeqCst) < 2 {
            coroutine::sleep(Duration::from_micros(100));
        }
        act.call("non-io wait", nonio);
        match nonio {
            0 => {
                let _ = rx.recv();
            }
            1 => loop {
                coroutine::park();
            },
            _ => sem.wait(),
        }
        act.ret("non-io wait", nonio, 0);
        loop {
            coroutine::park();
        }
    });
    let (s2, st2, e2, oi) = (sock.clone(), stage.clone(), errs.clone(), other_in.clone());
    let other_done = Arc::new(AtomicBool::new(false));
    let od = other_done.clone();
    x.spawn("other", true, move |act| {
        let t0 = Instant::now();
        while st2.load(SeqCst) < 1 && t0.elapsed() < Duration::from_secs(4) {
            coroutine::sleep(Duration::from_micros(100));
        }
        let mut buf = [0u8; 8];
        oi.store(true, SeqCst);
        act.call("recv_from", s2.as_raw_fd() as u64);
        let r = std::panic::catch_unwind(std::panic::AssertUnwindSafe(|| s2.recv_from(&mut buf)));
        act.ret("recv_from", 0, 0);
        match r {
            Ok(Ok((1, _))) if buf[0] == 2 => {}
            Ok(other) => e2.lock().unwrap().push(format!("the other coroutine's recv_from on the shared socket returned {:?} (byte {}) instead of the second datagram", other.map(|v| v.0).map_err(|e| e.kind()), buf[0])),
            Err(p) => {
                e2.lock().unwrap().push(format!("the other coroutine, which nobody cancelled, was thrown out of its recv_from by a panic (cancel: {})", is_cancel_panic(&p)));
            }
        }
        od.store(true, SeqCst);
    });
    x.desc = format!("target: udp recv_from (resumed by a datagram), then blocked in {}; another coroutine blocked in recv_from on the same socket; the target is cancelled", ["mpsc recv", "park", "Semphore::wait"][nonio as usize]);
    let _ = sender.send_to(&[1], addr);
    // wait for: target past its datagram, other inside the socket
    let t0 = Instant::now();
    while !(stage.load(SeqCst) >= 1 && other_in.load(SeqCst)) && t0.elapsed() < Duration::from_secs(4) {
        std::thread::sleep(Duration::from_micros(100));
    }
    if !(stage.load(SeqCst) >= 1 && other_in.load(SeqCst)) {
        return Err(Fail::Inconclusive("the two coroutines did not get into position within 4s".into()));
    }
    nap(300 + x.rng.below(600));
    stage.store(2, SeqCst);
    let at = 300 + x.rng.below(900);
    wait_fire(at);
    unsafe { target.coroutine().cancel() };
    {
        let t2 = &target;
        let r = x.wait_cond(&|| t2.is_done());
        cancelled_must_end(r)?;
    }
    match target.join() {
        Err(e) if is_cancel_panic(&e) => {}
        Err(_) => return viol("cancel after an earlier socket wait: join() reported a non-Cancel panic"),
        Ok(_) => return viol("cancel after an earlier socket wait: join() of the cancelled endless target returned Ok"),
    }
    if other_done.load(SeqCst) {
        if let Some(e) = errs.lock().unwrap().first() {
            return viol(format!("cancel after an earlier socket wait: {}", e));
        }
        return viol("cancel after an earlier socket wait: the other coroutine left its recv_from although nothing had arrived for it");
    }
    // the other coroutine is still in the socket and gets what is sent now
    let _ = sender.send_to(&[2], addr);
    let r = x.wait_all();
    io_verdict(x, r)?;
    if let Some(e) = errs.lock().unwrap().first() {
        return viol(format!("cancel after an earlier socket wait: {}", e));
    }
    Ok(())
}

// ------------------------------------------------------------------------------------ C17 unix listener shapes
/// the shapes of may's own `os::unix::net` tests (accept in a coroutine, connect + try_clone + reads
/// from a plain thread through the proxy coroutine), several sessions at once, with the event log
/// showing which side made progress
fn unixsrv(x: &mut Exec) -> Res {
    use may::os::unix::net::UnixListener;
    let sessions = x.rng.range(1, 6) as usize;
    let err = Arc::new(std::sync::Mutex::new(None::<String>));
    let grave: Grave = Default::default();
    static SEQ: AtomicUsize = AtomicUsize::new(0);
    for sidx in 0..sessions {
        let path = format!("/tmp/mayverif-{}-{}.sock", std::process::id(), SEQ.fetch_add(1, SeqCst));
        let _ = std::fs::remove_file(&path);
        let listener = UnixListener::bind(&path).map_err(|e| Fail::Inconclusive(format!("bind: {}", e)))?;
        let shape = x.rng.below(2);
        let (srv_co, cli_co) = (x.rng.chance(3, 4), x.rng.chance(1, 3));
        let (e1, g1) = (err.clone(), grave.clone());
        let lfd = listener.as_raw_fd() as u64;
        x.spawn(&format!("server{}", sidx), srv_co, move |a| {
            a.call("accept", lfd);
            let mut stream = match listener.accept() {
                Ok((s, _)) => s,
                Err(e) => {
                    *e1.lock().unwrap() = Some(format!("accept error {:?}", e));
                    return;
                }
            };
            a.ret("accept", lfd, stream.as_raw_fd() as u64);
            if shape == 0 {
                let mut buf = [0u8; 5];
                a.call("read", stream.as_raw_fd() as u64);
                if stream.read_exact(&mut buf).is_err() || &buf != b"hello" {
                    *e1.lock().unwrap() = Some("server read wrong data".into());
                }
                a.ret("read", 0, 0);
                a.call("write", stream.as_raw_fd() as u64);
                let _ = stream.write_all(b"world!");
                a.ret("write", 0, 0);
            } else {
                a.call("write", stream.as_raw_fd() as u64);
                let _ = stream.write_all(b"hello");
                let _ = stream.write_all(b"world");
                a.ret("write", 0, 0);
            }
            stream.shutdown(std::net::Shutdown::Write).ok();
            g1.lock().unwrap().push(Box::new(stream));
            g1.lock().unwrap().push(Box::new(listener));
        });
        let (e2, g2) = (err.clone(), grave.clone());
        let p2 = path.clone();
        let delay = x.rng.below(300);
        x.spawn(&format!("client{}", sidx), cli_co, move |a| {
            nap(delay);
            a.call("connect", 0);
            let mut stream = match UnixStream::connect(&p2) {
                Ok(s) => s,
                Err(e) => {
                    *e2.lock().unwrap() = Some(format!("connect error {:?}", e));
                    return;
                }
            };
            a.ret("connect", 0, stream.as_raw_fd() as u64);
            if shape == 0 {
                a.call("write", stream.as_raw_fd() as u64);
                let _ = stream.write_all(b"hello");
                a.ret("write", 0, 0);
                let mut buf = vec![];
                a.call("read", stream.as_raw_fd() as u64);
                let r = stream.read_to_end(&mut buf);
                a.ret("read", 0, buf.len() as u64);
                if r.is_err() || buf != b"world!" {
                    *e2.lock().unwrap() = Some(format!("client read_to_end got {:?} {:?}", r.map_err(|e| e.kind()), buf));
                }
            } else {
                let mut stream2 = stream.try_clone().unwrap();
                let mut buf = [0u8; 5];
                a.call("read", stream.as_raw_fd() as u64);
                let r1 = stream.read_exact(&mut buf);
                a.ret("read", 0, 5);
                if r1.is_err() || &buf != b"hello" {
                    *e2.lock().unwrap() = Some("client read 1 wrong".into());
                }
                a.call("read", stream2.as_raw_fd() as u64);
                let r2 = stream2.read_exact(&mut buf);
                a.ret("read", 0, 5);
                if r2.is_err() || &buf != b"world" {
                    *e2.lock().unwrap() = Some("client read 2 (try_clone'd handle) wrong".into());
                }
                g2.lock().unwrap().push(Box::new(stream2));
            }
            g2.lock().unwrap().push(Box::new(stream));
            let _ = std::fs::remove_file(&p2);
        });
    }
    x.desc = format!("unix listener sessions: {} (shapes of may's own net tests: accept in coroutine/thread, connect+try_clone+read from thread/coroutine)", sessions);
    let r = x.wait_all();
    io_verdict(x, r)?;
    grave.lock().unwrap().clear();
    if let Some(e) = err.lock().unwrap().take() {
        return viol(format!("unix listener session: {}", e));
    }
    Ok(())
}

// ------------------------------------------------------------------------------------ C17 descriptor churn
/// several sessions open, use and *close* sockets at the same time, so descriptor numbers are reused
/// while other connections are being registered: a reader whose registration is lost stays suspended
/// with its bytes in the kernel
fn iochurn(x: &mut Exec) -> Res {
    let sessions = x.rng.range(2, if x.thorough { 6 } else { 4 }) as usize;
    let rounds = x.rng.range(2, if x.thorough { 12 } else { 5 }) as usize;
    let err = Arc::new(std::sync::Mutex::new(None::<String>));
    let mut desc = format!("descriptor churn: {} sessions x {} rounds (open pair, hand one end over, transfer, close both at once): ", sessions, rounds);
    for sidx in 0..sessions {
        let use_tcp = x.rng.chance(1, 4);
        let (r_co, w_co) = (x.rng.chance(2, 3), x.rng.chance(2, 3));
        let (tx, rx) = may::sync::mpsc::channel::<Stream>();
        let (e1, e2) = (err.clone(), err.clone());
        let (mut r1, mut r2) = (x.rng.fork(), x.rng.fork());
        desc += &format!("[#{} {} r={} w={}] ", sidx, if use_tcp { "tcp" } else { "unix" }, if r_co { "co" } else { "th" }, if w_co { "co" } else { "th" });
        x.spawn(&format!("reader{}", sidx), r_co, move |act| {
            for round in 0..rounds {
                let (mut a, b) = if use_tcp {
                    match tcp_pair() {
                        Ok((a, b)) => (Stream::Tcp(a), Stream::Tcp(b)),
                        Err(_) => return,
                    }
                } else {
                    match UnixStream::pair() {
                        Ok((a, b)) => (Stream::Unix(a), Stream::Unix(b)),
                        Err(_) => return,
                    }
                };
                if tx.send(b).is_err() {
                    return;
                }
                let total = 1 + (round * 37 + sidx * 11) % 300;
                read_stream(act, &mut a, total, &mut r1, None, &e1);
                // closed right here, while the other sessions keep opening sockets
                drop(a);
            }
        });
        x.spawn(&format!("writer{}", sidx), w_co, move |act| {
            for round in 0..rounds {
                act.call("chan_recv", 0);
                let mut b = match rx.recv() {
                    Ok(b) => b,
                    Err(_) => return,
                };
                act.ret("chan_recv", 0, 0);
                nap(r2.below(1500));
                let total = 1 + (round * 37 + sidx * 11) % 300;
                write_stream(act, &mut b, total, &mut r2, &e2);
                drop(b);
            }
        });
    }
    // failing connects (refused) beside the sessions: their descriptors are created, registered and released on
    // the error path while the sessions open sockets
    let probers = x.rng.below(3) as usize;
    for pi in 0..probers {
        let p_co = x.rng.chance(2, 3);
        let e3 = err.clone();
        x.spawn(&format!("prober{}", pi), p_co, move |act| {
            for k in 0..rounds * 2 {
                act.call("connect-refused", k as u64);
                let r = TcpStream::connect("127.0.0.1:1");
                act.ret("connect-refused", k as u64, r.is_ok() as u64);
                if r.is_ok() {
                    *e3.lock().unwrap() = Some("connect to 127.0.0.1:1 succeeded".into());
                    return;
                }
            }
        });
    }
    desc += &format!("probers(refused connects)={}", probers);
    x.desc = desc;
    let r = x.wait_all();
    io_verdict(x, r)?;
    if let Some(e) = err.lock().unwrap().take() {
        return viol(format!("stream I/O under descriptor churn: {}", e));
    }
    Ok(())
}

// ------------------------------------------------------------------------------------ C18 cancel of a timed operation, socket lives on
/// a coroutine blocked in a *timed* receive on a shared socket is cancelled; the socket outlives it and is used again,
/// with other time-outs, before and after the deadline of the cancelled operation has passed: the cancelled
/// operation's timer must not make any later operation fail or return early
fn iocant(x: &mut Exec) -> Res {
    let sock = Arc::new(UdpSocket::bind(lo0()).map_err(|e| Fail::Inconclusive(format!("bind: {}", e)))?);
    let addr = sock.local_addr().map_err(|e| Fail::Inconclusive(format!("addr: {}", e)))?;
    let d1 = x.rng.range(3, 8); // ms, the operation that gets cancelled
    let cancel_after_us = x.rng.below(d1 * 500);
    let laters: Vec<(u64, bool, u64)> = (0..x.rng.range(1, 3)).map(|_| (x.rng.range(4, 14), x.rng.chance(1, 3), x.rng.below(2500))).collect(); // (timeout ms, datagram sent in time, pause before us)
    x.io_timeout_used(Duration::from_millis(d1));
    for l in &laters {
        x.io_timeout_used(Duration::from_millis(l.0));
    }
    let s1 = sock.clone();
    let (_, target) = x.spawn_co("target", move |act| {
        s1.set_read_timeout(Some(Duration::from_millis(d1))).unwrap();
        let mut buf = [0u8; 8];
        act.call("recv_from", s1.as_raw_fd() as u64);
        let _ = s1.recv_from(&mut buf);
        act.ret("recv_from", 0, 0);
        loop {
            coroutine::park();
        }
    });
    x.desc = format!("udp: timed recv ({}ms) cancelled after <= {}us, the shared socket then does timed recvs (ms, datagram in time, pause us) {:?}", d1, cancel_after_us, laters);
    wait_fire(cancel_after_us);
    unsafe { target.coroutine().cancel() };
    {
        let t2 = &target;
        let r = x.wait_cond(&|| t2.is_done());
        cancelled_must_end(r)?;
    }
    match target.join() {
        Err(e) if is_cancel_panic(&e) => {}
        Err(_) => return viol("cancel of a timed recv: join() reported a non-Cancel panic"),
        Ok(_) => return viol("cancel of a timed recv: join() of the cancelled endless target returned Ok"),
    }
    let err = Arc::new(std::sync::Mutex::new(None::<String>));
    let (s2, e2, laters2) = (sock.clone(), err.clone(), laters.clone());
    x.spawn("later", true, move |act| {
        let sender = std::net::UdpSocket::bind(lo0()).unwrap();
        for (i, (ms, with_data, pause)) in laters2.iter().enumerate() {
            nap(*pause);
            s2.set_read_timeout(Some(Duration::from_millis(*ms))).unwrap();
            if *with_data {
                let _ = sender.send_to(&[i as u8; 4], addr);
            }
            let mut buf = [0u8; 8];
            let t0 = Instant::now();
            act.call("recv_from", s2.as_raw_fd() as u64);
            let r = s2.recv_from(&mut buf);
            let el = t0.elapsed();
            act.ret("recv_from", 0, r.is_ok() as u64);
            match r {
                Ok((4, _)) if *with_data => {}
                Ok((n, _)) => {
                    *e2.lock().unwrap() = Some(format!("recv #{} returned {} bytes (datagram sent: {})", i, n, with_data));
                    return;
                }
                Err(e) if e.kind() == std::io::ErrorKind::TimedOut || e.kind() == std::io::ErrorKind::WouldBlock => {
                    if *with_data {
                        // sent before the call on loopback: it is there
                        *e2.lock().unwrap() = Some(format!("recv #{} timed out after {:?} although its datagram had been sent before the call", i, el));
                        return;
                    }
                    if el < Duration::from_millis(*ms) {
                        *e2.lock().unwrap() = Some(format!("recv #{} with a {}ms time-out failed with TimedOut after {:?} (the timer of the cancelled {}ms operation hit it)", i, ms, el, d1));
                        return;
                    }
                }
                Err(e) => {
                    *e2.lock().unwrap() = Some(format!("recv #{} failed with {:?}", i, e.kind()));
                    return;
                }
            }
        }
    });
    let r = x.wait_all();
    io_verdict(x, r)?;
    if let Some(e) = err.lock().unwrap().take() {
        return viol(format!("timed I/O after the cancel of a timed operation on the same socket: {}", e));
    }
    Ok(())
}
