//! Runtime-core scenarios: spawn/join (C01), park/unpark (C02), timed waits (C08), cancellation
//! enumeration (C09), panic isolation (C13), scopes (C14), coroutine-local storage (C15).

use crate::scen_sync::wait_fire;
use crate::util::*;
use crate::ScenDef;
use may::coroutine;
use may::sync::{mpmc, mpsc, Blocker, Condvar, Mutex, RwLock, Semphore, SyncFlag};
use std::cell::{Cell, RefCell};
use std::sync::atomic::{AtomicBool, AtomicU64, AtomicUsize, Ordering::*};
use std::sync::Arc;
use std::time::{Duration, Instant};

pub fn defs() -> Vec<ScenDef> {
    let d = |name, f, fire, pool_cap| ScenDef { name, f, fire, gate_sites: &[], pool_cap, only_sites: &[] };
    vec![
        d("spawn", spawn as fn(&mut Exec) -> Res, false, None),
        d("spawnp", spawn, false, Some(4)),
        d("coldpin", coldpin, false, None),
        d("yieldspin", yieldspin, false, None),
        d("yieldspinio", yieldspinio, false, None),
        d("park", park, false, None),
        d("tmr", tmr, false, None),
        d("tmrmix", tmrmix, false, None),
        d("tmrrace", tmrrace, false, None),
        d("can", can, true, None),
        d("pan", pan, false, Some(4)),
        d("scope", scope, true, None),
        d("cls", cls, true, Some(2)),
    ]
}

fn os_tid() -> u64 {
    gettid() as u64
}

// ------------------------------------------------------------------------------------ C01
struct CoRec {
    /// diagnostics only: kind*1000 + how*100 + last step op*10 + state
    phase: AtomicUsize,
    runs: AtomicUsize,
    running: AtomicBool,
    finished: AtomicBool,
    overlap: AtomicUsize,
    threads: std::sync::Mutex<Vec<u64>>,
}

fn co_body(i: usize, recs: &Arc<Vec<CoRec>>, r: &mut Rng, kind: u64) -> usize {
    let rec = &recs[i];
    rec.runs.fetch_add(1, SeqCst);
    // a cancel may end the coroutine at any blocking call: finished is set by a drop guard
    struct Fin<'a>(&'a CoRec);
    impl Drop for Fin<'_> {
        fn drop(&mut self) {
            self.0.running.store(false, SeqCst);
            self.0.finished.store(true, SeqCst);
        }
    }
    let _fin = if kind == 2 { Some(Fin(rec)) } else { None };
    let seg_enter = |rec: &CoRec| {
        if rec.running.swap(true, SeqCst) {
            rec.overlap.fetch_add(1, SeqCst);
        }
        let t = os_tid();
        let mut th = rec.threads.lock().unwrap();
        if !th.contains(&t) {
            th.push(t);
        }
    };
    let seg_leave = |rec: &CoRec| rec.running.store(false, SeqCst);
    seg_enter(rec);
    let steps = r.below(5);
    for st in 0..steps {
        seg_leave(rec);
        let op = r.below(5);
        rec.phase.store(kind as usize * 1000 + st as usize * 10 + op as usize + 1, SeqCst);
        match op {
            0 | 1 => coroutine::yield_now(),
            2 => coroutine::sleep(Duration::from_micros(r.below(300))),
            // woken by the timer thread, possibly while the worker is still inside subscribe
            4 => coroutine::park_timeout(Duration::from_micros(r.below(300))),
            _ => {
                // park/unpark pair with a helper thread-free self wake: unpark first, then park
                let me = coroutine::current();
                me.unpark();
                coroutine::park();
            }
        }
        seg_enter(rec);
    }
    match kind {
        1 => {
            seg_leave(rec);
            rec.finished.store(true, SeqCst);
            panic!("P{}", i)
        }
        2 => {
            // will be cancelled: endless cancellable wait
            seg_leave(rec);
            loop {
                coroutine::park();
            }
        }
        _ => {}
    }
    seg_leave(rec);
    rec.finished.store(true, SeqCst);
    i * 3 + 1
}

fn spawn(x: &mut Exec) -> Res {
    let n = x.rng.range(20, if x.thorough { 1500 } else { 160 }) as usize;
    let recs: Arc<Vec<CoRec>> = Arc::new(
        (0..n)
            .map(|_| CoRec { phase: AtomicUsize::new(0), runs: AtomicUsize::new(0), running: AtomicBool::new(false), finished: AtomicBool::new(false), overlap: AtomicUsize::new(0), threads: Default::default() })
            .collect(),
    );
    let spawners = 2usize;
    let results = Arc::new(std::sync::Mutex::new(Vec::<(usize, u64, Result<usize, String>)>::new()));
    let errs = Arc::new(std::sync::Mutex::new(Vec::<String>::new()));
    let workers = x.workers;
    let detached = Arc::new(AtomicUsize::new(0));
    for sp in 0..spawners {
        let (recs, results, errs, detached) = (recs.clone(), results.clone(), errs.clone(), detached.clone());
        let mut r = x.rng.fork();
        x.spawn(&format!("spawner{}", sp), sp == 1, move |a| {
            let mut hs = vec![];
            for i in (sp..n).step_by(spawners) {
                let recs2 = recs.clone();
                let mut r2 = r.fork();
                // 0 return, 1 panic, 2 cancelled
                let kind = match r.below(10) {
                    0 => 1,
                    1 => 2,
                    _ => 0,
                };
                let how = r.below(8);
                let nested = kind != 2 && r.chance(1, 6);
                let body = move || {
                    if nested {
                        // nested spawn from coroutine context, joined inside
                        let (recs3, mut r3) = (recs2.clone(), r2.fork());
                        let h = go!(move || co_body(i, &recs3, &mut r3, kind));
                        match h.join() {
                            Ok(v) => v,
                            Err(e) => std::panic::resume_unwind(e),
                        }
                    } else {
                        co_body(i, &recs2, &mut r2, kind)
                    }
                };
                a.note("spawn", i as u64, how);
                let h = unsafe {
                    match how {
                        0 => coroutine::Builder::new().name(format!("c{}", i)).spawn(body).unwrap(),
                        1 => coroutine::Builder::new().stack_size(0x6000 + (i % 3) * 0x1000).spawn(body).unwrap(),
                        2 => coroutine::Builder::new().id(i % workers).spawn(body).unwrap(),
                        3 if !nested && sp == 0 => coroutine::Builder::new().spawn_local(body).unwrap(),
                        _ => coroutine::spawn(body),
                    }
                };
                if kind == 0 && !nested && r.chance(1, 3) {
                    // detached: nobody joins
                    detached.fetch_add(1, SeqCst);
                    drop(h);
                } else {
                    hs.push((i, kind, nested, h));
                }
                if r.chance(1, 10) {
                    coroutine::yield_now();
                }
            }
            for (i, kind, _nested, h) in hs {
                if kind == 2 {
                    nap(r.below(200));
                    unsafe { h.coroutine().cancel() };
                }
                if r.chance(1, 3) {
                    // is_done()/wait() must not report completion early
                    if h.is_done() && !recs[i].finished.load(SeqCst) {
                        errs.lock().unwrap().push(format!("is_done() true before coroutine {} finished", i));
                    }
                    a.call("wait", i as u64);
                    h.wait();
                    a.ret("wait", i as u64, 0);
                    if !recs[i].finished.load(SeqCst) {
                        errs.lock().unwrap().push(format!("wait() returned before coroutine {} finished", i));
                    }
                }
                a.call("join", i as u64);
                let res = h.join();
                a.ret("join", i as u64, res.is_ok() as u64);
                if !recs[i].finished.load(SeqCst) {
                    errs.lock().unwrap().push(format!("join() returned before coroutine {} finished", i));
                }
                let res = match res {
                    Ok(v) => Ok(v),
                    Err(e) => Err(if is_cancel_panic(&e) { "Cancel".to_string() } else { e.downcast_ref::<String>().cloned().unwrap_or_else(|| "?".into()) }),
                };
                results.lock().unwrap().push((i, kind, res));
            }
        });
    }
    x.desc = format!("spawn storm n={} spawners=thread+coroutine workers={}", n, workers);
    let unfinished = |recs: &Arc<Vec<CoRec>>| -> String {
        recs.iter().enumerate().filter(|(_, r)| !r.finished.load(SeqCst)).map(|(i, r)| format!("co{}:runs={},phase(kind*1000+step*10+op+1; op 0/1 yield 2 sleep 3 unpark+park 4 park_timeout)={}", i, r.runs.load(SeqCst), r.phase.load(SeqCst))).collect::<Vec<_>>().join(" ")
    };
    if let Err(e) = x.wait_all() {
        x.desc += &format!(" | unfinished: {}", unfinished(&recs));
        return Err(e);
    }
    // detached ones: completion is observed through their own flags (quiescence oracle again)
    let recs2 = recs.clone();
    if let Err(e) = x.wait_cond(&move || recs2.iter().all(|r| r.finished.load(SeqCst))) {
        x.desc += &format!(" | unfinished: {}", unfinished(&recs));
        return Err(e);
    }
    if let Some(e) = errs.lock().unwrap().first() {
        return viol(format!("spawn/join: {}", e));
    }
    let mut migrated = 0;
    for (i, r) in recs.iter().enumerate() {
        let c = r.runs.load(SeqCst);
        if c != 1 {
            return viol(format!("coroutine {} ran {} times", i, c));
        }
        if r.overlap.load(SeqCst) != 0 {
            return viol(format!("coroutine {} executed on two OS threads at the same time", i));
        }
        if r.threads.lock().unwrap().len() > 1 {
            migrated += 1;
        }
    }
    let res = results.lock().unwrap();
    if res.len() + detached.load(SeqCst) != n {
        return viol(format!("joined {} + detached {} != spawned {}", res.len(), detached.load(SeqCst), n));
    }
    for (i, kind, r) in res.iter() {
        let ok = match (kind, r) {
            (0, Ok(v)) => *v == i * 3 + 1,
            (1, Err(p)) => p == &format!("P{}", i),
            (2, Err(p)) => p == "Cancel",
            _ => false,
        };
        if !ok {
            return viol(format!("join() of coroutine {} (kind {}: 0=return 1=panic 2=cancel) reported {:?}", i, kind, r));
        }
    }
    x.passive_actor("summary").note("migrated", migrated as u64, n as u64);
    Ok(())
}

/// meant for the first executions of a fresh process (driver: fresh-process mode): workers that have never been woken.
/// A coroutine hands one pinned child (`Builder::id(k)`) to every worker, a plain thread does the same, a child hands
/// grand-children on: every one runs exactly once and join() tells its value.
fn coldpin(x: &mut Exec) -> Res {
    let workers = x.workers;
    let ran: Arc<Vec<AtomicUsize>> = Arc::new((0..workers * 3).map(|_| AtomicUsize::new(0)).collect());
    let errs = Arc::new(std::sync::Mutex::new(Vec::<String>::new()));
    let from_co_first = x.rng.chance(2, 3);
    let order: Vec<bool> = if from_co_first { vec![true, false] } else { vec![false, true] };
    for (round, from_co) in order.into_iter().enumerate() {
        let (ran, errs) = (ran.clone(), errs.clone());
        let grand = round == 0;
        x.spawn(&format!("parent{}", round), from_co, move |a| {
            let mut hs = vec![];
            for k in 0..workers {
                let slot = round * workers + k;
                let ran2 = ran.clone();
                let h = unsafe {
                    coroutine::Builder::new().id(k).spawn(move || {
                        ran2[slot].fetch_add(1, SeqCst);
                        // a grand-child for the next worker, from a pinned coroutine
                        if grand {
                            let ran3 = ran2.clone();
                            let g = coroutine::Builder::new().id((k + 1) % workers).spawn(move || {
                                ran3[2 * workers + k].fetch_add(1, SeqCst);
                                k
                            });
                            if let Ok(g) = g {
                                let _ = g.join();
                            }
                        }
                        slot * 10
                    })
                };
                match h {
                    Ok(h) => hs.push((slot, h)),
                    Err(e) => errs.lock().unwrap().push(format!("Builder::id({}).spawn failed: {:?}", k, e)),
                }
            }
            for (slot, h) in hs {
                a.call("join", slot as u64);
                match h.join() {
                    Ok(v) if v == slot * 10 => {}
                    other => errs.lock().unwrap().push(format!("join() of the child pinned to worker {} returned {:?}", slot % workers, other.map_err(|_| "panic"))),
                }
                a.ret("join", slot as u64, 0);
            }
        });
        // one round after the other: the thread round wakes every worker, the coroutine round must manage on its own
        x.desc = format!("pinned children for every one of {} workers, round {} from a {}", workers, round, if from_co { "coroutine" } else { "thread" });
        x.wait_all()?;
    }
    x.desc = format!("pinned children for every one of {} workers from a coroutine and from a thread (first: {}), grand-children from the pinned ones", workers, if from_co_first { "coroutine" } else { "thread" });
    x.wait_all()?;
    if let Some(e) = errs.lock().unwrap().first() {
        return viol(format!("pinned spawn: {}", e));
    }
    for (i, r) in ran.iter().enumerate() {
        let n = r.load(SeqCst);
        let want = if i < 2 * workers || from_co_first || true { 1 } else { 0 };
        if n != want {
            return viol(format!("pinned spawn: child #{} ran {} times", i, n));
        }
    }
    Ok(())
}


// ------------------------------------------------------------------------------------ C01 (fairness towards woken coroutines)
/// Every worker is kept busy by coroutines that do nothing but `yield_now()` until a flag is set; the flag is set by a
/// coroutine that becomes ready *from outside the workers*: its sleep ends (timer thread), a thread unparks it, a thread
/// spawns it, a thread sends it a message / posts its semaphore. It "runs to its end no matter how often [the others]
/// yield" only if the workers look at their hand-off queue while their local queue is never empty. The oracle counts
/// logical steps: yields executed by all spinners *after* the waker's call has returned.
fn yieldspin(x: &mut Exec) -> Res {
    yieldspin_impl(x, false)
}
fn yieldspinio(x: &mut Exec) -> Res {
    yieldspin_impl(x, true)
}
fn yieldspin_impl(x: &mut Exec, io: bool) -> Res {
    const NOT_YET: u64 = u64::MAX;
    let workers = x.workers;
    let spinners = workers + x.rng.below(3) as usize;
    let kind = if io { 5 + x.rng.below(2) } else { x.rng.below(5) };
    let limit: u64 = if x.thorough { 12_000_000 } else { 4_000_000 };
    let dur_us = x.rng.range(200, 3000);
    let pre_us = x.rng.below(1500);
    let done = Arc::new(AtomicBool::new(false));
    let abort = Arc::new(AtomicBool::new(false));
    let yields = Arc::new(AtomicU64::new(0));
    let mark = Arc::new(AtomicU64::new(NOT_YET));
    let started = Arc::new(AtomicUsize::new(0));
    let errs = Arc::new(std::sync::Mutex::new(Vec::<String>::new()));
    let t0 = Instant::now();
    let what = ["sleep ends (timer thread)", "unparked by a thread", "spawned by a thread", "mpsc message sent by a thread", "semaphore posted by a thread", "datagram sent by a thread (udp recv)", "io timeout expires (udp recv with read timeout)"][kind as usize];
    // yields of each spinner since the coroutine became ready: the verdict needs *every* spinner to have gone on for its
    // share of the limit, i.e. every worker that holds one was demonstrably running (a worker that the OS keeps off the
    // cpu for a second on a loaded machine must not count against may)
    let since: Arc<Vec<AtomicU64>> = Arc::new((0..spinners).map(|_| AtomicU64::new(0)).collect());
    let share = limit / spinners as u64;
    for i in 0..spinners {
        let (done, abort, yields, mark, started, errs, since) = (done.clone(), abort.clone(), yields.clone(), mark.clone(), started.clone(), errs.clone(), since.clone());
        x.spawn(&format!("spin{}", i), true, move |a| {
            a.call("spin", i as u64);
            started.fetch_add(1, SeqCst);
            let mut mine = 0u64;
            loop {
                if done.load(Acquire) || abort.load(Relaxed) {
                    break;
                }
                mine += 1;
                let y = yields.fetch_add(1, Relaxed) + 1;
                let m = mark.load(Relaxed);
                if m == NOT_YET {
                    // timed kinds have no waker whose return could be observed: start counting a generous second after
                    // the deadline (wall clock only ever *delays* the count, the verdict is in yields)
                    if (kind == 0 || kind == 6) && mine % 1024 == 0 && t0.elapsed() > Duration::from_micros(dur_us + pre_us) + Duration::from_secs(1) {
                        let _ = mark.compare_exchange(NOT_YET, y, SeqCst, SeqCst);
                    }
                } else {
                    let n = since[i].fetch_add(1, Relaxed) + 1;
                    if n % 1024 == 0 && n > share && since.iter().all(|c| c.load(Relaxed) > share) {
                        if !abort.swap(true, SeqCst) {
                            errs.lock().unwrap().push(format!("the workers executed {} yields after the coroutine became ready ({}), each of the {} spinners more than {}, and it still has not run", y - m, what, spinners, share));
                        }
                        break;
                    }
                }
                coroutine::yield_now();
            }
            a.ret("spin", i as u64, mine);
        });
    }
    let wait_started = {
        let started = started.clone();
        move || {
            let t = Instant::now();
            while started.load(SeqCst) < spinners && t.elapsed() < Duration::from_secs(4) {
                std::thread::sleep(Duration::from_micros(50));
            }
            started.load(SeqCst) >= spinners
        }
    };
    let gave_up = Arc::new(AtomicBool::new(false));
    match kind {
        0 => {
            let done = done.clone();
            x.spawn("late", true, move |a| {
                nap(pre_us);
                a.call("sleep", dur_us);
                coroutine::sleep(Duration::from_micros(dur_us));
                a.ret("sleep", dur_us, 0);
                done.store(true, Release);
            });
        }
        1 => {
            let slot: Arc<std::sync::Mutex<Option<coroutine::Coroutine>>> = Arc::new(std::sync::Mutex::new(None));
            let token = Arc::new(AtomicBool::new(false));
            let (done2, slot2, token2) = (done.clone(), slot.clone(), token.clone());
            x.spawn("late", true, move |a| {
                *slot2.lock().unwrap() = Some(coroutine::current());
                a.call("park", 0);
                while !token2.load(SeqCst) {
                    coroutine::park();
                }
                a.ret("park", 0, 0);
                done2.store(true, Release);
            });
            let (mark, yields, gave_up) = (mark.clone(), yields.clone(), gave_up.clone());
            x.spawn("waker", false, move |a| {
                let ok = wait_started();
                let t = Instant::now();
                while slot.lock().unwrap().is_none() && t.elapsed() < Duration::from_secs(4) {
                    std::thread::sleep(Duration::from_micros(50));
                }
                let co = slot.lock().unwrap().take();
                nap(pre_us);
                token.store(true, SeqCst);
                match co {
                    Some(co) if ok => {
                        a.call("unpark", 0);
                        co.unpark();
                        a.ret("unpark", 0, 0);
                        mark.store(yields.load(SeqCst), SeqCst);
                    }
                    Some(co) => {
                        gave_up.store(true, SeqCst);
                        co.unpark();
                    }
                    None => gave_up.store(true, SeqCst),
                }
            });
        }
        2 => {
            let (done, mark, yields, gave_up) = (done.clone(), mark.clone(), yields.clone(), gave_up.clone());
            x.spawn("waker", false, move |a| {
                if !wait_started() {
                    gave_up.store(true, SeqCst);
                }
                nap(pre_us);
                a.call("spawn", 0);
                let d2 = done.clone();
                let h = unsafe { coroutine::spawn(move || d2.store(true, Release)) };
                a.ret("spawn", 0, 0);
                mark.store(yields.load(SeqCst), SeqCst);
                a.call("join", 0);
                let _ = h.join();
                a.ret("join", 0, 0);
            });
        }
        3 => {
            let (tx, rx) = mpsc::channel::<u32>();
            let done2 = done.clone();
            x.spawn("late", true, move |a| {
                a.call("recv", 0);
                let r = rx.recv();
                a.ret("recv", 0, r.is_ok() as u64);
                done2.store(true, Release);
            });
            let (mark, yields, gave_up) = (mark.clone(), yields.clone(), gave_up.clone());
            x.spawn("waker", false, move |a| {
                if !wait_started() {
                    gave_up.store(true, SeqCst);
                }
                nap(pre_us);
                a.call("send", 0);
                let _ = tx.send(7);
                a.ret("send", 0, 0);
                mark.store(yields.load(SeqCst), SeqCst);
            });
        }
        4 => {
            let sem = Arc::new(Semphore::new(0));
            let (done2, sem2) = (done.clone(), sem.clone());
            x.spawn("late", true, move |a| {
                a.call("sem_wait", 0);
                sem2.wait();
                a.ret("sem_wait", 0, 0);
                done2.store(true, Release);
            });
            let (mark, yields, gave_up) = (mark.clone(), yields.clone(), gave_up.clone());
            x.spawn("waker", false, move |a| {
                if !wait_started() {
                    gave_up.store(true, SeqCst);
                }
                nap(pre_us);
                a.call("post", 0);
                sem.post();
                a.ret("post", 0, 0);
                mark.store(yields.load(SeqCst), SeqCst);
            });
        }
        _ => {
            let sock = may::net::UdpSocket::bind(lo0()).map_err(|e| Fail::Inconclusive(format!("bind: {}", e)))?;
            let addr = sock.local_addr().unwrap();
            if kind == 6 {
                sock.set_read_timeout(Some(Duration::from_micros(dur_us.max(1000)))).unwrap();
            }
            let done2 = done.clone();
            x.spawn("late", true, move |a| {
                nap(pre_us);
                let mut buf = [0u8; 16];
                a.call("udp_recv", kind);
                let r = sock.recv_from(&mut buf);
                a.ret("udp_recv", kind, r.is_ok() as u64);
                done2.store(true, Release);
            });
            if kind == 5 {
                let (mark, yields, gave_up) = (mark.clone(), yields.clone(), gave_up.clone());
                x.spawn("waker", false, move |a| {
                    if !wait_started() {
                        gave_up.store(true, SeqCst);
                    }
                    nap(pre_us + 300);
                    let s = std::net::UdpSocket::bind(lo0()).unwrap();
                    a.call("send_to", 0);
                    let _ = s.send_to(b"x", addr);
                    a.ret("send_to", 0, 0);
                    mark.store(yields.load(SeqCst), SeqCst);
                });
            }
        }
    }
    x.desc = format!("{} spinners that only yield on {} workers; the flag is set by a coroutine that becomes ready when: {} (limit {} yields)", spinners, workers, what, limit);
    x.wait_all()?;
    if gave_up.load(SeqCst) {
        return Err(Fail::Inconclusive("the spinners had not all started after 4s: the waker went ahead without counting".into()));
    }
    if let Some(e) = errs.lock().unwrap().first() {
        return Err(Fail::Suspect(format!("yield fairness: {}", e)));
    }
    Ok(())
}

// ------------------------------------------------------------------------------------ C02
fn park(x: &mut Exec) -> Res {
    let rounds = x.rng.range(2, if x.thorough { 10 } else { 5 }) as usize;
    let fresh = x.rng.chance(2, 3); // fresh Blocker per round vs the coroutine's own park handle
    // a fresh FastBlocker instead (coroutines only): its unpark runs the coroutine at once on the unparker's thread
    let fast = fresh && x.rng.chance(1, 4);
    let target_co = if fast { true } else if fresh { x.rng.chance(3, 4) } else { true };
    let unparkers = x.rng.range(1, 3) as usize;
    // per round: Some(d) => timed park; has_unpark => an unparker calls unpark for this round
    let plan: Vec<(Option<u64>, bool, u64)> = (0..rounds)
        .map(|_| {
            let timed = x.rng.chance(1, 3);
            // micro-seconds, whole and fractional milli-seconds: Timeout must never be reported before the deadline
            let d = if timed { Some(*x.rng.pick(&[1_500u64, 1_700, 2_000, 2_999, 3_000, 5_250])) } else { None };
            let has_unpark = !timed || x.rng.chance(1, 2);
            (d, has_unpark, x.rng.below(1200))
        })
        .collect();
    for p in &plan {
        if let Some(d) = p.0 {
            x.timeout_used(Duration::from_micros(d));
        }
    }
    let slot: Arc<Vec<std::sync::Mutex<Option<Arc<Blocker>>>>> = Arc::new((0..rounds).map(|_| std::sync::Mutex::new(None)).collect());
    let fslot: Arc<Vec<std::sync::Mutex<Option<Arc<may::sync::FastBlocker>>>>> = Arc::new((0..rounds).map(|_| std::sync::Mutex::new(None)).collect());
    let started: Arc<Vec<AtomicBool>> = Arc::new((0..rounds).map(|_| AtomicBool::new(false)).collect());
    let co_handle: Arc<std::sync::Mutex<Option<coroutine::Coroutine>>> = Arc::new(std::sync::Mutex::new(None));
    let gave_up: Arc<Vec<AtomicBool>> = Arc::new((0..rounds).map(|_| AtomicBool::new(false)).collect());
    let errs = Arc::new(std::sync::Mutex::new(Vec::<String>::new()));
    {
        let (slot, started, plan, errs, co_handle, fslot) = (slot.clone(), started.clone(), plan.clone(), errs.clone(), co_handle.clone(), fslot.clone());
        x.spawn("target", target_co, move |a| {
            if !fresh {
                *co_handle.lock().unwrap() = Some(coroutine::current());
            }
            for (i, (d, _has, _)) in plan.iter().enumerate() {
                let b = if fresh && !fast { Some(Blocker::current()) } else { None };
                if let Some(b) = &b {
                    *slot[i].lock().unwrap() = Some(b.clone());
                }
                let fb = if fast { Some(Arc::new(may::sync::FastBlocker::new())) } else { None };
                if let Some(fb) = &fb {
                    *fslot[i].lock().unwrap() = Some(fb.clone());
                }
                // everything called after this point is "after the previous park returned"
                started[i].store(true, SeqCst);
                let t0 = Instant::now();
                a.call("park", i as u64);
                let res: Result<(), coroutine::ParkError> = match (&b, d) {
                    _ if fb.is_some() => fb.as_ref().unwrap().park(d.map(Duration::from_micros)),
                    (Some(b), d) => b.park(d.map(Duration::from_micros)),
                    (None, Some(d)) => {
                        coroutine::park_timeout(Duration::from_micros(*d));
                        Ok(())
                    }
                    (None, None) => {
                        coroutine::park();
                        Ok(())
                    }
                };
                let el = t0.elapsed();
                let code = match res {
                    Ok(()) => 0,
                    Err(coroutine::ParkError::Timeout) => 1,
                    Err(coroutine::ParkError::Canceled) => 2,
                };
                a.ret("park", i as u64, code);
                match (res, d) {
                    (Err(coroutine::ParkError::Timeout), Some(d)) => {
                        if el < Duration::from_micros(*d) {
                            errs.lock().unwrap().push(format!("round {}: park({}us) reported Timeout after {:?}, before its deadline", i, d, el));
                        }
                    }
                    (Err(coroutine::ParkError::Timeout), None) => errs.lock().unwrap().push(format!("round {}: park(None) reported Timeout", i)),
                    (Err(coroutine::ParkError::Canceled), _) => errs.lock().unwrap().push(format!("round {}: park reported Canceled but nobody cancelled the target", i)),
                    _ => {}
                }
            }
        });
    }
    for u in 0..unparkers {
        let (slot, started, plan, co_handle, gave_up, fslot) = (slot.clone(), started.clone(), plan.clone(), co_handle.clone(), gave_up.clone(), fslot.clone());
        let is_co = x.rng.chance(1, 2);
        x.spawn(&format!("unparker{}", u), is_co, move |a| {
            for (i, (_d, has, delay)) in plan.iter().enumerate() {
                if !*has || i % unparkers != u {
                    continue;
                }
                // bounded: if the target is stranded the unparker must end too, so that the
                // quiescence oracle can name the open park instead of a polling actor
                let t0 = Instant::now();
                let (mut iters, mut worst) = (0u64, 0u64);
                while !started[i].load(SeqCst) {
                    let n0 = Instant::now();
                    nap(100);
                    iters += 1;
                    worst = worst.max(n0.elapsed().as_micros() as u64);
                    if t0.elapsed() > Duration::from_secs(4) && !started[i].load(SeqCst) {
                        // remembered: if the target gets here after all, its park of this and the later rounds has no
                        // unparker and says nothing about may
                        for g in gave_up.iter().skip(i) {
                            g.store(true, SeqCst);
                        }
                        a.note("gave up: polls, worst nap us", iters, worst);
                        return;
                    }
                }
                nap(*delay);
                a.call("unpark", i as u64);
                if fast {
                    let b = fslot[i].lock().unwrap().clone().unwrap();
                    b.unpark();
                } else if fresh {
                    let b = slot[i].lock().unwrap().clone().unwrap();
                    b.unpark();
                } else {
                    let h = co_handle.lock().unwrap().clone().unwrap();
                    h.unpark();
                }
                a.ret("unpark", i as u64, 0);
            }
        });
    }
    x.desc = format!("park rounds(timeout_us,unparked,delay_us)={:?} fresh_blocker={} fast_blocker={} target_co={} unparkers={}", plan, fresh, fast, target_co, unparkers);
    let r = x.wait_all();
    if let Err(Fail::Stranded(msg)) = &r {
        // the round the target is stuck in: did its unparker give up before the target got there (a machine that
        // stalled the target for seconds)? then nobody was going to unpark it
        let open_round = x.actors.iter().find(|a| a.name == "target").and_then(|a| a.open.lock().unwrap().as_ref().map(|o| o.1 as usize));
        if let Some(i) = open_round {
            if i < rounds && gave_up[i].load(SeqCst) {
                return Err(Fail::Inconclusive(format!("the unparker of round {} gave up after 4 s before the target started that round{}: {}", i, worst_nap(), msg)));
            }
        }
    }
    r?;
    if let Some(e) = errs.lock().unwrap().first() {
        return viol(format!("park/unpark: {}", e));
    }
    // Blocker honesty: Ok on a fresh Blocker only if an unpark for it was called before park returned
    if fresh {
        let ev = x.log.snapshot();
        for i in 0..rounds {
            let ret = ev.iter().find(|e| e.kind == b'r' && e.op == "park" && e.a == i as u64);
            let unp = ev.iter().find(|e| e.kind == b'c' && e.op == "unpark" && e.a == i as u64);
            if let Some(r) = ret {
                if r.b == 0 && unp.map(|u| u.stamp > r.stamp).unwrap_or(true) {
                    return viol(format!("park/unpark: round {} park on a fresh Blocker returned Ok at #{} but no unpark had been called", i, r.stamp));
                }
                if r.b == 1 && plan[i].0.is_none() {
                    return viol("park/unpark: untimed park timed out");
                }
            }
        }
    }
    Ok(())
}

// ------------------------------------------------------------------------------------ C08
const DURS_NS: &[u64] = &[0, 1, 999, 1_000, 500_000, 999_999, 1_000_000, 1_000_001, 1_500_000, 1_700_000, 2_999_000, 10_000_000, 10_500_000];

/// calibration: worst oversleep of a 1 ms std sleep loop while the execution ran
struct Calib {
    stop: Arc<AtomicBool>,
    worst_us: Arc<AtomicU64>,
    h: Option<std::thread::JoinHandle<()>>,
}
impl Calib {
    fn start() -> Calib {
        let stop = Arc::new(AtomicBool::new(false));
        let worst_us = Arc::new(AtomicU64::new(0));
        let (s2, w2) = (stop.clone(), worst_us.clone());
        let h = std::thread::spawn(move || {
            while !s2.load(Relaxed) {
                let t0 = Instant::now();
                std::thread::sleep(Duration::from_millis(1));
                let over = (t0.elapsed().as_micros() as u64).saturating_sub(1000);
                w2.fetch_max(over, Relaxed);
            }
        });
        Calib { stop, worst_us, h: Some(h) }
    }
    fn finish(mut self) -> u64 {
        self.stop.store(true, Relaxed);
        if let Some(h) = self.h.take() {
            let _ = h.join();
        }
        self.worst_us.load(Relaxed)
    }
}

fn late_bound_us(l: u64) -> u64 {
    (25_000).max(10 * l)
}

fn tmr(x: &mut Exec) -> Res {
    let n = x.rng.range(2, 5) as usize;
    let errs = Arc::new(std::sync::Mutex::new(Vec::<String>::new()));
    let lates = Arc::new(std::sync::Mutex::new(Vec::<(String, u64, u64)>::new()));
    let calib = Calib::start();
    let mut desc = String::from("timed waits: ");
    for i in 0..n {
        let (errs, lates) = (errs.clone(), lates.clone());
        let mut r = x.rng.fork();
        let is_co = i != 0 || x.rng.chance(1, 2);
        let ops: Vec<(u64, u64)> = (0..3).map(|_| (x.rng.below(11), if x.rng.chance(1, 6) { x.rng.range(0, 3_000_000) } else { *x.rng.pick(DURS_NS) })).collect();
        for o in &ops {
            x.timeout_used(Duration::from_nanos(o.1.max(1_000_000)));
        }
        desc += &format!("a{}:{}{:?} ", i, if is_co { "co" } else { "th" }, ops);
        x.spawn(&format!("a{}", i), is_co, move |a| {
            for (kind, ns) in ops {
                let d = Duration::from_nanos(ns);
                let t0 = Instant::now();
                let mut timed_out = true; // false when the result says "event", which no one issued
                let what: &'static str = match kind {
                    0 => {
                        a.call("sleep", ns);
                        coroutine::sleep(d);
                        "sleep"
                    }
                    1 => {
                        a.call("Blocker::park", ns);
                        let b = Blocker::current();
                        let r = b.park(Some(d));
                        if r != Err(coroutine::ParkError::Timeout) {
                            errs.lock().unwrap().push(format!("Blocker::park({:?}) with nobody unparking returned {:?}", d, r));
                            timed_out = false;
                        }
                        "Blocker::park"
                    }
                    2 => {
                        a.call("Semphore::wait_timeout", ns);
                        let s = Semphore::new(0);
                        if s.wait_timeout(d) {
                            errs.lock().unwrap().push(format!("Semphore::wait_timeout({:?}) returned true without a post", d));
                            timed_out = false;
                        }
                        "Semphore::wait_timeout"
                    }
                    3 => {
                        a.call("SyncFlag::wait_timeout", ns);
                        let s = SyncFlag::new();
                        if s.wait_timeout(d) {
                            errs.lock().unwrap().push(format!("SyncFlag::wait_timeout({:?}) returned true without fire", d));
                            timed_out = false;
                        }
                        "SyncFlag::wait_timeout"
                    }
                    4 => {
                        a.call("Condvar::wait_timeout", ns);
                        let m = Mutex::new(());
                        let c = Condvar::new();
                        let g = m.lock().unwrap();
                        let (_g, r) = c.wait_timeout(g, d).unwrap();
                        if !r.timed_out() {
                            errs.lock().unwrap().push(format!("Condvar::wait_timeout({:?}) did not report timed_out without a notify", d));
                            timed_out = false;
                        }
                        "Condvar::wait_timeout"
                    }
                    5 => {
                        a.call("mpsc::recv_timeout", ns);
                        let (_tx, rx) = mpsc::channel::<u8>();
                        if !matches!(rx.recv_timeout(d), Err(std::sync::mpsc::RecvTimeoutError::Timeout)) {
                            errs.lock().unwrap().push(format!("mpsc recv_timeout({:?}) did not time out", d));
                            timed_out = false;
                        }
                        "mpsc::recv_timeout"
                    }
                    6 => {
                        a.call("mpmc::recv_timeout", ns);
                        let (_tx, rx) = mpmc::channel::<u8>();
                        if !matches!(rx.recv_timeout(d), Err(std::sync::mpsc::RecvTimeoutError::Timeout)) {
                            errs.lock().unwrap().push(format!("mpmc recv_timeout({:?}) did not time out", d));
                            timed_out = false;
                        }
                        "mpmc::recv_timeout"
                    }
                    7 => {
                        a.call("Cqueue::poll", ns);
                        let flag = Arc::new(SyncFlag::new());
                        let f2 = flag.clone();
                        let r = may::cqueue::scope(|cq| {
                            go!(cq, 0, move |es| {
                                f2.wait();
                                es.send(0);
                            });
                            let r = cq.poll(Some(d));
                            flag.fire();
                            r.is_ok()
                        });
                        if r {
                            errs.lock().unwrap().push(format!("Cqueue::poll({:?}) returned an event nobody sent", d));
                            timed_out = false;
                        }
                        "Cqueue::poll"
                    }
                    8 => {
                        // coroutine::park_timeout may wake spuriously but must return
                        a.call("coroutine::park_timeout", ns);
                        coroutine::park_timeout(d);
                        a.ret("coroutine::park_timeout", ns, 0);
                        continue;
                    }
                    9 => {
                        // long timer released early by an unpark: the entry goes stale in the heap
                        a.call("Blocker::park+unpark", ns);
                        let b = Blocker::current();
                        let b2 = b.clone();
                        let early = 200 + r.below(600);
                        let long = *r.pick(&[300u64, 10_000, 3_600_000]);
                        // when the helper's unpark had *returned*, measured from the same t0: on a loaded machine the
                        // helper may get there later than the (shortest) time-out, then Timeout is the right answer
                        let done_us = Arc::new(AtomicU64::new(u64::MAX));
                        let du = done_us.clone();
                        let h = std::thread::spawn(move || {
                            std::thread::sleep(Duration::from_micros(early));
                            b2.unpark();
                            du.store(t0.elapsed().as_micros() as u64, SeqCst);
                        });
                        let res = b.park(Some(Duration::from_millis(long)));
                        let el = t0.elapsed();
                        a.ret("Blocker::park+unpark", ns, res.is_ok() as u64);
                        if a.is_co() {
                            while !h.is_finished() {
                                nap(50);
                            }
                        }
                        let _ = h.join();
                        let unparked_at = done_us.load(SeqCst);
                        if res.is_err() && unparked_at.saturating_add(1_000) < long * 1_000 {
                            errs.lock().unwrap().push(format!("park({}ms) returned {:?} after {:?} although unpark() had returned {}us after the park was called, before the deadline", long, res, el, unparked_at));
                        }
                        if el < Duration::from_micros(early) {
                            errs.lock().unwrap().push(format!("park returned Ok after {:?}, before the unpark at {}us", el, early));
                        }
                        lates.lock().unwrap().push(("unparked park".into(), early, el.as_micros() as u64));
                        continue;
                    }
                    _ => {
                        // thread-context timed wait on a may primitive from a plain thread is covered
                        // by the thread actor; here: zero-duration sleep
                        a.call("sleep0", 0);
                        coroutine::sleep(Duration::from_nanos(0));
                        a.ret("sleep0", 0, 0);
                        continue;
                    }
                };
                let el = t0.elapsed();
                a.ret(what, ns, el.as_nanos() as u64);
                if timed_out && el < d {
                    errs.lock().unwrap().push(format!("{}({:?}) returned early after {:?}", what, d, el));
                }
                lates.lock().unwrap().push((what.to_string(), ns / 1000, el.as_micros() as u64));
            }
        });
    }
    x.desc = desc;
    let r = x.wait_all();
    let l = calib.finish();
    r?;
    if let Some(e) = errs.lock().unwrap().first() {
        return viol(format!("timed wait: {}", e));
    }
    // promptness only without perturbation and on a calm machine
    if !x.perturbed && l < 5_000 {
        for (what, d_us, el_us) in lates.lock().unwrap().iter() {
            // AtomicDuration granularity: 1 ms
            if *el_us > d_us + 1_000 + late_bound_us(l) {
                return Err(Fail::Suspect(format!("timed wait: {} for {}us returned after {}us (worst scheduler oversleep measured: {}us)", what, d_us, el_us, l)));
            }
        }
    }
    Ok(())
}

/// many timers pending at once: equal and different intervals, a short one armed while only long
/// ones are pending (the timer thread must be woken), heads removed before expiry
fn tmrmix(x: &mut Exec) -> Res {
    let calib = Calib::start();
    let lates = Arc::new(std::sync::Mutex::new(Vec::<(u64, u64)>::new()));
    let errs = Arc::new(std::sync::Mutex::new(Vec::<String>::new()));
    let n = x.rng.range(4, if x.thorough { 40 } else { 12 }) as usize;
    let many_intervals = x.thorough && x.rng.chance(1, 4);
    let stoppers: Arc<std::sync::Mutex<Vec<Arc<Blocker>>>> = Default::default();
    // long sleepers first so that the heap head is far away
    for i in 0..n {
        let (lates, errs, stoppers) = (lates.clone(), errs.clone(), stoppers.clone());
        let kind = x.rng.below(4);
        let ms = match kind {
            0 => 300 + x.rng.below(3) * 100, // long, released early
            1 => *x.rng.pick(&[2u64, 2, 5, 5, 8]),
            2 => x.rng.range(2, 12),
            _ => 3,
        };
        let start_delay = x.rng.below(3000);
        x.timeout_used(Duration::from_millis(if kind == 0 { 20 } else { ms }));
        x.spawn(&format!("t{}", i), true, move |a| {
            nap(start_delay);
            let d = Duration::from_millis(ms);
            let t0 = Instant::now();
            if kind == 0 {
                let b = Blocker::current();
                stoppers.lock().unwrap().push(b.clone());
                a.call("park_long", ms);
                let r = b.park(Some(d));
                a.ret("park_long", ms, r.is_ok() as u64);
                if r.is_err() && t0.elapsed() < d {
                    errs.lock().unwrap().push(format!("long park({}ms) timed out after {:?}", ms, t0.elapsed()));
                }
            } else {
                a.call("sleep", ms);
                coroutine::sleep(d);
                let el = t0.elapsed();
                a.ret("sleep", ms, el.as_micros() as u64);
                if el < d {
                    errs.lock().unwrap().push(format!("sleep({}ms) returned after {:?}", ms, el));
                }
                lates.lock().unwrap().push((ms * 1000, el.as_micros() as u64));
            }
        });
    }
    if many_intervals {
        // > 1024 distinct intervals exercises the interval-map clean-up path
        let errs = errs.clone();
        x.spawn("burst", true, move |_a| {
            let hs: Vec<_> = (0..1100u64)
                .map(|k| {
                    go!(move || {
                        let d = Duration::from_micros(2000 + k);
                        let t0 = Instant::now();
                        coroutine::sleep(d);
                        t0.elapsed() >= d
                    })
                })
                .collect();
            for h in hs {
                if !h.join().unwrap_or(false) {
                    errs.lock().unwrap().push("burst sleeper returned early or died".into());
                }
            }
        });
    }
    {
        // release the long parkers early (their heap entries go stale)
        let stoppers = stoppers.clone();
        x.spawn("releaser", false, move |a| {
            std::thread::sleep(Duration::from_millis(6));
            let v: Vec<_> = stoppers.lock().unwrap().clone();
            for b in v {
                a.call("unpark", 0);
                b.unpark();
                a.ret("unpark", 0, 0);
            }
            // late registrations
            std::thread::sleep(Duration::from_millis(4));
            let v: Vec<_> = stoppers.lock().unwrap().clone();
            for b in v {
                b.unpark();
            }
        });
    }
    x.desc = format!("timer mix n={} burst_1100_intervals={}", n, many_intervals);
    let r = x.wait_all();
    let l = calib.finish();
    r?;
    if let Some(e) = errs.lock().unwrap().first() {
        return viol(format!("timer mix: {}", e));
    }
    if !x.perturbed && l < 5_000 {
        for (d_us, el_us) in lates.lock().unwrap().iter() {
            if *el_us > d_us + 1_000 + late_bound_us(l) {
                return Err(Fail::Suspect(format!("timer mix: sleep({}us) returned after {}us while other timers were pending/removed (worst scheduler oversleep {}us)", d_us, el_us, l)));
            }
        }
    }
    Ok(())
}

// ------------------------------------------------------------------------------------ C09
pub const CAN_KINDS: &[&str] = &[
    "park", "park_timeout", "sleep", "mutex.lock", "rwlock.write", "rwlock.read", "sem.wait", "sem.wait_timeout", "flag.wait", "cv.wait", "cv.wait_timeout", "mpsc.recv", "mpmc.recv", "join", "select", "blocker.park",
];

fn can(x: &mut Exec) -> Res {
    let kind = x.rng.below(CAN_KINDS.len() as u64) as usize;
    let name = CAN_KINDS[kind];
    let reg = DropReg::new(4);
    let m = Arc::new(Mutex::new(0u32));
    let rwl = Arc::new(RwLock::new(0u32));
    let sem = Arc::new(Semphore::new(0));
    let flg = Arc::new(SyncFlag::new());
    let cvp = Arc::new((Mutex::new(false), Condvar::new()));
    let (mtx, mrx) = mpsc::channel::<u32>();
    let (ctx, crx) = mpmc::channel::<u32>();
    // holder keeps the mutex / write lock for a while so that the target has to wait
    let held = Arc::new(AtomicBool::new(false));
    {
        let (m, rwl, held) = (m.clone(), rwl.clone(), held.clone());
        let hold_us = x.rng.range(300, 1200);
        x.spawn("holder", true, move |a| {
            let g = m.lock().unwrap();
            let w = rwl.write().unwrap();
            held.store(true, SeqCst);
            nap(hold_us);
            drop(w);
            drop(g);
            a.note("released", 0, 0);
        });
    }
    while !held.load(SeqCst) {
        std::thread::yield_now();
    }
    let other = go!(move || {
        coroutine::sleep(Duration::from_millis(2));
        5u32
    });
    let reached = Arc::new(AtomicBool::new(false));
    let (reg2, m2, rw2, sem2, flg2, cv2, reached2) = (reg.clone(), m.clone(), rwl.clone(), sem.clone(), flg.clone(), cvp.clone(), reached.clone());
    let (_, t) = x.spawn_co("target", move |a| {
        let _t1 = Tracked::new(&reg2, 0); // lives across the blocking call
        a.call(name, 0);
        {
            let _t2 = Tracked::new(&reg2, 1); // nested frame
            match kind {
                0 => coroutine::park(),
                1 => coroutine::park_timeout(Duration::from_millis(50)),
                2 => coroutine::sleep(Duration::from_millis(50)),
                3 => {
                    let _g = m2.lock().unwrap();
                    let _t3 = Tracked::new(&reg2, 2); // owned together with a guard
                    reached2.store(true, SeqCst);
                    loop {
                        coroutine::sleep(Duration::from_millis(50));
                    }
                }
                4 => {
                    let _g = rw2.write().unwrap();
                    let _t3 = Tracked::new(&reg2, 2);
                    reached2.store(true, SeqCst);
                    loop {
                        coroutine::sleep(Duration::from_millis(50));
                    }
                }
                5 => {
                    // blocked in read() behind the writer; a guard that was obtained is dropped
                    // before the next blocking call (holding a read guard while cancelled with
                    // contending readers is known finding D13)
                    let g = rw2.read().unwrap();
                    drop(g);
                }
                6 => sem2.wait(),
                7 => {
                    sem2.wait_timeout(Duration::from_millis(50));
                }
                8 => flg2.wait(),
                9 => {
                    let mut g = cv2.0.lock().unwrap();
                    while !*g {
                        g = cv2.1.wait(g).unwrap();
                    }
                }
                10 => {
                    let mut g = cv2.0.lock().unwrap();
                    while !*g {
                        g = cv2.1.wait_timeout(g, Duration::from_millis(50)).unwrap().0;
                    }
                }
                11 => {
                    let _ = mrx.recv();
                }
                12 => {
                    let _ = crx.recv();
                }
                13 => {
                    let _ = other.join();
                }
                14 => {
                    let (_a, ra) = mpsc::channel::<u32>();
                    let (_b, rb) = mpsc::channel::<u32>();
                    let _ = select!(_ = ra.recv() => {}, _ = rb.recv() => {});
                }
                _ => {
                    let b = Blocker::current();
                    let _ = b.park(None);
                }
            }
        }
        a.ret(name, 0, 0);
        reached2.store(true, SeqCst);
        loop {
            coroutine::park();
        }
    });
    let cancel_at = x.rng.below(900);
    x.desc = format!("cancel target blocked in {} (cancel at FIRE or <= {}us)", name, cancel_at);
    wait_fire(cancel_at);
    let c = x.passive_actor("canceller");
    c.call("cancel", 0);
    unsafe { t.coroutine().cancel() };
    c.ret("cancel", 0, 0);
    // the target must end: join() = Err(Cancel), never hangs
    let t2 = &t;
    x.wait_cond(&|| t2.is_done())?;
    match t.join() {
        Ok(_) => return viol(format!("{}: join() of a cancelled endless coroutine returned Ok", name)),
        Err(e) => {
            if !is_cancel_panic(&e) {
                return viol(format!("{}: join() returned a non-Cancel panic ({:?})", name, e.downcast_ref::<String>()));
            }
        }
    }
    x.wait_all()?; // holder
    // the primitives keep working for a bystander; nothing was lost or corrupted
    let out = Arc::new(std::sync::Mutex::new(Vec::<String>::new()));
    {
        let (m, rwl, sem, flg, cvp, out) = (m.clone(), rwl.clone(), sem.clone(), flg.clone(), cvp.clone(), out.clone());
        x.spawn("bystander", true, move |a| {
            a.call("mutex.lock", 0);
            match m.lock() {
                Ok(g) => drop(g),
                Err(_) => out.lock().unwrap().push("mutex poisoned by a cancel unwind".into()),
            }
            a.ret("mutex.lock", 0, 0);
            a.call("rwlock.write", 0);
            match rwl.write() {
                Ok(g) => drop(g),
                Err(_) => out.lock().unwrap().push("rwlock poisoned by a cancel unwind".into()),
            }
            a.ret("rwlock.write", 0, 0);
            a.call("rwlock.read", 0);
            drop(rwl.read());
            a.ret("rwlock.read", 0, 0);
            a.call("sem.post+wait", 0);
            sem.post();
            sem.wait();
            a.ret("sem.post+wait", 0, 0);
            {
                let mut g = cvp.0.lock().unwrap();
                *g = true;
                cvp.1.notify_all();
            }
            flg.fire();
            if !flg.is_fired() {
                out.lock().unwrap().push("flag not fired".into());
            }
        });
    }
    let _ = mtx.send(1);
    let _ = ctx.send(1);
    x.wait_all()?;
    if let Some(e) = out.lock().unwrap().first() {
        return viol(format!("{}: {}", name, e));
    }
    if sem.get_value() != 0 {
        return viol(format!("{}: semaphore value {} after the cancel (permit leaked or duplicated)", name, sem.get_value()));
    }
    for id in 0..3 {
        let created = id < 2 || (matches!(kind, 3 | 4) && reached.load(SeqCst) && reg.count(2) > 0);
        let d = reg.count(id);
        if id < 2 && d != 1 {
            return viol(format!("{}: stack-owned value #{} dropped {} times", name, id, d));
        }
        if id == 2 && d > 1 {
            return viol(format!("{}: guard-scoped value dropped {} times", name, d));
        }
        let _ = created;
    }
    Ok(())
}

// ------------------------------------------------------------------------------------ C13 / C15
coroutine_local!(static CLS_ID: Cell<usize> = Cell::new(usize::MAX));
coroutine_local!(static CLS_TR: RefCell<Option<ClsVal>> = RefCell::new(None));
// a second key with the *same value type* as CLS_ID: keys are distinct although their types are not
coroutine_local!(static CLS_ID2: Cell<usize> = Cell::new(424_242));
coroutine_local!(static CLS_INIT: Cell<u64> = { CLS_INITS.fetch_add(1, SeqCst); Cell::new(7) });
static CLS_INITS: AtomicUsize = AtomicUsize::new(0);
static CLS_DROPS: AtomicUsize = AtomicUsize::new(0);
static CLS_BAD_OWNER: AtomicUsize = AtomicUsize::new(0);
pub struct ClsVal(usize);
impl Drop for ClsVal {
    fn drop(&mut self) {
        CLS_DROPS.fetch_add(1, SeqCst);
    }
}

fn pan(x: &mut Exec) -> Res {
    let n = x.rng.range(12, if x.thorough { 60 } else { 32 }) as usize;
    let workers = x.workers;
    let m = Arc::new(Mutex::new(0u32)); // poisoned by kind 2
    let mc = Arc::new(Mutex::new(0u32)); // held by a cancelled coroutine: must not be poisoned
    let rwp = Arc::new(RwLock::new(0u32)); // poisoned by kind 5
    let drops0 = CLS_DROPS.load(SeqCst);
    let mut cls_users = 0usize;
    let mut hs = vec![];
    let mut kinds = vec![];
    // detached coroutines (handle dropped at once) that panic with a payload and are gone before the storm starts:
    // their pooled stacks are the ones the storm's coroutines run on
    let nd = x.rng.below(6) as usize;
    let dgone = Arc::new(AtomicUsize::new(0));
    for j in 0..nd {
        let dg = dgone.clone();
        let late = x.rng.chance(1, 2);
        let h = go!(move || {
            let _g = OnDrop(Some(move || {
                dg.fetch_add(1, SeqCst);
            }));
            if late {
                coroutine::sleep(Duration::from_micros(60));
            }
            std::panic::panic_any(format!("DETACHED{}", j));
        });
        drop(h);
    }
    {
        let dg = &dgone;
        x.wait_cond(&|| dg.load(SeqCst) == nd)?;
    }
    if nd > 0 {
        std::thread::sleep(Duration::from_micros(300));
    }
    for i in 0..n {
        let kind = x.rng.below(11);
        kinds.push(kind);
        let (m, mc, rwp) = (m.clone(), mc.clone(), rwp.clone());
        let k = x.rng.below(3);
        if kind != 8 {
            cls_users += 1;
        }
        let h = go!(move || -> usize {
            if kind != 8 {
                if CLS_ID.with(|c| c.get()) != usize::MAX {
                    return usize::MAX - 1; // inherited someone else's local value
                }
                CLS_ID.with(|c| c.set(i));
                CLS_TR.with(|t| *t.borrow_mut() = Some(ClsVal(i)));
            }
            for _ in 0..k {
                coroutine::yield_now();
                if std::thread::panicking() {
                    return usize::MAX - 4; // another coroutine's unwinding leaked into this worker
                }
            }
            match kind {
                9 => {
                    // a scoped child panics while its sibling still runs
                    let v = vec![1u32; 4];
                    coroutine::scope(|s| {
                        go!(s, || {
                            coroutine::sleep(Duration::from_micros(400));
                            let _ = v.len();
                        });
                        go!(s, || {
                            panic!("P{}", i);
                        });
                    });
                }
                0 => panic!("P{}", i),
                1 => {
                    coroutine::sleep(Duration::from_micros(100));
                    panic!("P{}", i)
                }
                2 => {
                    let _g = m.lock();
                    coroutine::yield_now();
                    panic!("P{}", i)
                }
                3 => {
                    // scope owner panics while a child still runs
                    let v = vec![1u32; 4];
                    coroutine::scope(|s| {
                        go!(s, || {
                            coroutine::sleep(Duration::from_micros(300));
                            let _ = v.len();
                        });
                        panic!("P{}", i);
                    });
                }
                4 => {
                    let _g = mc.lock().unwrap();
                    loop {
                        coroutine::sleep(Duration::from_millis(20));
                    }
                }
                5 => {
                    let _g = rwp.write();
                    panic!("P{}", i)
                }
                6 => {
                    // panic inside a select arm is re-raised in the poller (this coroutine)
                    // the other arm can never complete (its sender stays alive and silent), so no timing decides
                    let (_quiet_tx, quiet_rx) = may::sync::mpsc::channel::<u8>();
                    let tok = select!(
                        _ = { coroutine::sleep(Duration::from_micros(100)); if true { panic!("P{}", i) } } => {},
                        _ = quiet_rx.recv() => {}
                    );
                    return usize::MAX - 20 - tok; // not reached if the arm's panic is re-raised
                }
                _ => {}
            }
            for _ in 0..k + 2 {
                coroutine::sleep(Duration::from_micros(50));
                coroutine::yield_now(); // back onto a worker thread
                if std::thread::panicking() {
                    return usize::MAX - 4;
                }
            }
            if kind != 8 && CLS_ID.with(|c| c.get()) != i {
                return usize::MAX - 2;
            }
            if kind != 8 && CLS_TR.with(|t| t.borrow().as_ref().map(|v| v.0)) != Some(i) {
                return usize::MAX - 3;
            }
            i * 7 + 3
        });
        hs.push((i, kind, h));
    }
    x.desc = format!("panic storm after {} detached panickers, n={} kinds={:?} (0/1 panic, 2 panic under Mutex, 3 scope owner panics, 4 cancelled lock holder, 5 panic under RwLock write, 6 panic in select arm, 7/8/10 bystanders, 9 scoped child panics beside a running sibling) pool=4", nd, n, kinds);
    std::thread::sleep(Duration::from_micros(x.rng.below(500)));
    for (_, kind, h) in hs.iter() {
        if *kind == 4 {
            unsafe { h.coroutine().cancel() };
        }
    }
    let handles: Vec<_> = hs.iter().map(|(_, _, h)| h as *const coroutine::JoinHandle<usize> as usize).collect();
    let _ = handles;
    {
        let hs_ref = &hs;
        let r = x.wait_cond(&|| hs_ref.iter().all(|(_, _, h)| h.is_done()));
        if let Err(Fail::Stranded(msg)) = r {
            let stuck: Vec<String> = hs.iter().filter(|(_, _, h)| !h.is_done()).map(|(i, k, _)| format!("#{} kind {}", i, k)).collect();
            return Err(Fail::Stranded(format!("coroutines of the storm that never finished: {:?} (kind 6 = select! whose arm panics: the poller was not woken / the panic not re-raised); {}", stuck, msg)));
        }
        r?;
    }
    for (i, kind, h) in hs {
        let res = h.join();
        if let Ok(v) = &res {
            if *v == usize::MAX - 4 {
                return viol(format!("coroutine {} (kind {}) observed thread::panicking() == true although it was not panicking (another coroutine was switched out while unwinding on this worker)", i, kind));
            }
        }
        match (kind, res) {
            (0..=3 | 5 | 6 | 9, Err(e)) => {
                let ok = e.downcast_ref::<String>().map(|s| s == &format!("P{}", i)).unwrap_or(false);
                if !ok {
                    return viol(format!("coroutine {} kind {}: join() did not deliver its panic payload (cancel={})", i, kind, is_cancel_panic(&e)));
                }
            }
            (6, Ok(v)) => return viol(format!("coroutine {}: the panic of its select arm 0 (after a 100us sleep) was not re-raised; select! returned token {} (1 = a recv on a channel nobody sends to)", i, (usize::MAX - 20).wrapping_sub(v))),
            (0..=3 | 5 | 9, Ok(_)) => return viol(format!("coroutine {} kind {}: panic not reported by join()", i, kind)),
            (4, Err(e)) => {
                if !is_cancel_panic(&e) {
                    return viol("cancelled lock holder: join() did not report Cancel");
                }
            }
            (4, Ok(_)) => return viol("cancelled lock holder returned Ok"),
            (_, Ok(v)) => {
                if v != i * 7 + 3 {
                    if v == usize::MAX - 4 {
                        return viol(format!("bystander {} observed thread::panicking() == true although it never panicked (another coroutine blocked while unwinding on this worker)", i));
                    }
                    return viol(format!("bystander {} returned {:#x} (coroutine-local value leaked/inherited, or wrong result)", i, v));
                }
            }
            (_, Err(_)) => return viol(format!("bystander {} died although it never panicked", i)),
        }
    }
    // every worker is alive, not marked panicking, and poisoning / cancel still work there
    let mut probes = vec![];
    for w in 0..workers {
        let h = unsafe {
            coroutine::Builder::new()
                .id(w)
                .spawn(move || {
                    let panicking = std::thread::panicking();
                    // (a) a panic under a guard on this worker must poison
                    let pm = Arc::new(Mutex::new(0));
                    let pm2 = pm.clone();
                    let r = std::panic::catch_unwind(std::panic::AssertUnwindSafe(move || {
                        let _g = pm2.lock().unwrap();
                        panic!("probe");
                    }));
                    let poison_ok = r.is_err() && pm.is_poisoned();
                    // (c) a guard dropped normally must not poison
                    let qm = Mutex::new(0);
                    drop(qm.lock().unwrap());
                    (panicking, poison_ok, !qm.is_poisoned())
                })
                .unwrap()
        };
        probes.push((w, h));
    }
    {
        let pr = &probes;
        x.wait_cond(&|| pr.iter().all(|(_, h)| h.is_done()))?;
    }
    for (w, h) in probes {
        match h.join() {
            Ok((panicking, poison_ok, clean_ok)) => {
                if panicking {
                    return viol(format!("worker {} is left in thread::panicking() state after other coroutines panicked", w));
                }
                if !poison_ok {
                    return viol(format!("worker {}: a panic under a Mutex guard did not poison the lock", w));
                }
                if !clean_ok {
                    return viol(format!("worker {}: a normally dropped guard poisoned the lock", w));
                }
            }
            Err(_) => return viol(format!("pinned probe on worker {} died", w)),
        }
    }
    if kinds.contains(&2) {
        if !m.is_poisoned() {
            return viol("Mutex not poisoned after a panic under its guard");
        }
        match m.try_lock() {
            Err(std::sync::TryLockError::WouldBlock) => return viol("Mutex not released after a panic under its guard"),
            _ => {}
        }
    }
    if kinds.contains(&5) {
        if !rwp.is_poisoned() {
            return viol("RwLock not poisoned after a panic under its write guard");
        }
        if let Err(std::sync::TryLockError::WouldBlock) = rwp.try_write() {
            return viol("RwLock not released after a panic under its write guard");
        }
    }
    if mc.is_poisoned() {
        return viol("Mutex poisoned by a cancel unwind");
    }
    if mc.try_lock().is_err() {
        return viol("Mutex held by a cancelled coroutine was not released");
    }
    // local values: dropped exactly once, eventually
    let want = cls_users;
    if let Err(Fail::Stranded(msg)) = x.wait_cond(&move || CLS_DROPS.load(SeqCst) - drops0 >= want) {
        return viol(format!(
            "coroutine-local values of {} owners were created but only {} were dropped after every coroutine of the storm had ended (panicked / cancelled coroutines keep their local storage); {}",
            cls_users,
            CLS_DROPS.load(SeqCst) - drops0,
            msg
        ));
    }
    std::thread::sleep(Duration::from_millis(1));
    let d = CLS_DROPS.load(SeqCst) - drops0;
    if d != cls_users {
        return viol(format!("coroutine-local values dropped {} times for {} owners", d, cls_users));
    }
    Ok(())
}

/// C15: privacy across yields/migrations; a fresh coroutine on a reused stack starts clean
fn cls(x: &mut Exec) -> Res {
    let errs = Arc::new(std::sync::Mutex::new(Vec::<String>::new()));
    let drops0 = CLS_DROPS.load(SeqCst);
    let inits0 = CLS_INITS.load(SeqCst);
    // ---- predecessors: end by return / panic / cancel (parked, sleeping, in a select arm) / timeout
    x.timeout_used(Duration::from_millis(1));
    let npred = x.rng.range(2, 6) as usize;
    let mut preds = vec![];
    let mut kinds = vec![];
    let mut users = 0usize;
    // every predecessor first does something that may leave an event result behind (`residue`), then ends in one
    // of four ways (`ending`): the two are independent, a stale result must not survive *any* ending
    let mut busy = vec![];
    for i in 0..npred {
        let residue = x.rng.below(5);
        let ending = x.rng.below(4);
        let kind = residue * 10 + ending;
        kinds.push(kind);
        users += 1;
        let ready = Arc::new(AtomicBool::new(false));
        let go_on = Arc::new(AtomicBool::new(false));
        let (ready2, go2) = (ready.clone(), go_on.clone());
        // a third of the predecessors runs on a stack of another size than the configured one: such a coroutine is
        // not handed back to the pool when it ends, its local storage has to be destroyed all the same
        let odd_stack = if x.rng.chance(1, 3) { Some(*x.rng.pick(&[0x6000usize, 0x14000, 0x20000])) } else { None };
        let body = move || {
            CLS_ID.with(|c| c.set(1000 + i));
            CLS_ID2.with(|c| c.set(777_000 + i));
            CLS_TR.with(|t| *t.borrow_mut() = Some(ClsVal(1000 + i)));
            CLS_INIT.with(|c| c.set(99));
            match residue {
                0 => {}
                1 => {
                    // a timed-out park (a Timeout result was passed in)
                    let b = Blocker::current();
                    let _ = b.park(Some(Duration::from_millis(1)));
                }
                2 => {
                    // a select whose losing arms are cancelled at some point of their send
                    let (_tx, rx) = mpsc::channel::<u8>();
                    let _ = select!(
                        _ = coroutine::sleep(Duration::from_micros(200)) => {},
                        _ = coroutine::sleep(Duration::from_micros(250)) => {},
                        _ = rx.recv() => {}
                    );
                }
                3 => {
                    coroutine::park_timeout(Duration::from_millis(1));
                }
                _ => {
                    // cancelled while running, then wait_io(): returns at once and takes the cancel with it,
                    // the Canceled result it was handed stays unread
                    use may::io::WaitIo;
                    if let Ok((s1, _s2)) = may::os::unix::net::UnixStream::pair() {
                        ready2.store(true, SeqCst);
                        let t0 = Instant::now();
                        while !go2.load(SeqCst) && t0.elapsed() < Duration::from_secs(2) {
                            std::hint::spin_loop();
                        }
                        s1.wait_io();
                    } else {
                        ready2.store(true, SeqCst);
                    }
                }
            }
            match ending {
                0 => {}
                1 => panic!("pred"),
                2 => loop {
                    coroutine::park();
                },
                _ => loop {
                    coroutine::sleep(Duration::from_millis(20));
                },
            }
        };
        let h = match odd_stack {
            Some(sz) => unsafe { coroutine::Builder::new().stack_size(sz).spawn(body) }.expect("spawn with a stack size"),
            None => unsafe { coroutine::spawn(body) },
        };
        if residue == 4 {
            busy.push((ready, go_on, preds.len()));
        }
        preds.push((ending, h));
    }
    for (ready, go_on, idx) in &busy {
        let t0 = Instant::now();
        while !ready.load(SeqCst) && t0.elapsed() < Duration::from_secs(2) {
            std::thread::sleep(Duration::from_micros(50));
        }
        unsafe { preds[*idx].1.coroutine().cancel() };
        go_on.store(true, SeqCst);
    }
    let at = x.rng.below(500);
    wait_fire(at);
    // an ending that waits for its cancel gets cancelled again and again until it is gone (the first cancel of a
    // residue-4 predecessor may be the one that wait_io takes away)
    {
        let p = &preds;
        let t = std::cell::Cell::new(Instant::now() - Duration::from_secs(1));
        x.wait_cond(&|| {
            if t.get().elapsed() > Duration::from_micros(500) {
                t.set(Instant::now());
                for (k, h) in p.iter() {
                    if matches!(k, 2 | 3) && !h.is_done() {
                        unsafe { h.coroutine().cancel() };
                    }
                }
            }
            p.iter().all(|(_, h)| h.is_done())
        })?;
    }
    for (_, h) in preds {
        let _ = h.join();
    }
    // ---- successors reuse the pooled stacks (pool capacity 2): they must start clean
    let nsucc = x.rng.range(2, 5) as usize;
    x.timeout_used(Duration::from_millis(6));
    for i in 0..nsucc {
        let errs = errs.clone();
        users += 1;
        let first_op = x.rng.below(3);
        x.spawn(&format!("succ{}", i), true, move |a| {
            let inits_before = CLS_INITS.load(SeqCst);
            let first = CLS_ID.with(|c| c.get());
            if first != usize::MAX {
                errs.lock().unwrap().push(format!("fresh coroutine saw the local value {} of an earlier coroutine", first));
            }
            if CLS_TR.with(|t| t.borrow().is_some()) {
                errs.lock().unwrap().push("fresh coroutine inherited a local object".into());
            }
            let v = CLS_INIT.with(|c| c.get());
            if v != 7 || CLS_INITS.load(SeqCst) == inits_before {
                errs.lock().unwrap().push(format!("initialiser did not run for a fresh coroutine (value {})", v));
            }
            CLS_ID.with(|c| c.set(i));
            CLS_TR.with(|t| *t.borrow_mut() = Some(ClsVal(i)));
            // key identity: another key of the same value type is its own slot, created by its own initialiser
            let second = CLS_ID2.with(|c| c.get());
            if second != 424_242 {
                errs.lock().unwrap().push(format!("first access to a second key of the same value type did not yield its initialiser's value 424242 but {} (this coroutine had just stored {} under the first key; predecessors store 777xxx under the second)", second, i));
            }
            CLS_ID2.with(|c| c.set(500_000 + i));
            if CLS_ID.with(|c| c.get()) != i {
                errs.lock().unwrap().push("a store through one key changed the value of another key of the same value type".into());
            }
            // no pending cancel, no stale result: the very first blocking call is the one that would meet a result
            // left in the pooled stack. A wake-up that passes no result (a plain unpark, a mutex hand-over) is the
            // one that exposes it, a time-out overwrites it.
            match first_op {
                1 => {
                    let b0 = Blocker::current();
                    let b1 = b0.clone();
                    let helper = std::thread::spawn(move || {
                        std::thread::sleep(Duration::from_micros(150));
                        b1.unpark();
                    });
                    a.call("Blocker::park(unparked by a thread)", 0);
                    let r0 = b0.park(None);
                    a.ret("Blocker::park(unparked by a thread)", 0, 0);
                    let _ = helper.join();
                    if r0.is_err() {
                        errs.lock().unwrap().push(format!("first park of a fresh coroutine, ended by a plain unpark, returned {:?} (stale result inherited)", r0));
                    }
                }
                2 => {
                    let m = Arc::new(Mutex::new(0u32));
                    let m2 = m.clone();
                    let held = Arc::new(AtomicBool::new(false));
                    let held2 = held.clone();
                    let helper = std::thread::spawn(move || {
                        let _g = m2.lock().unwrap();
                        held2.store(true, SeqCst);
                        std::thread::sleep(Duration::from_micros(200));
                    });
                    while !held.load(SeqCst) {
                        std::thread::yield_now();
                    }
                    a.call("Mutex::lock(contended)", 0);
                    let r0 = std::panic::catch_unwind(std::panic::AssertUnwindSafe(|| {
                        let _g = m.lock().unwrap();
                    }));
                    a.ret("Mutex::lock(contended)", 0, 0);
                    let _ = helper.join();
                    if r0.is_err() {
                        errs.lock().unwrap().push("first contended Mutex::lock of a fresh coroutine raised a panic (stale Canceled result inherited)".into());
                    }
                }
                _ => {}
            }
            let b = Blocker::current();
            let t0 = Instant::now();
            a.call("Blocker::park(6ms)", 0);
            let r = b.park(Some(Duration::from_millis(6)));
            a.ret("Blocker::park(6ms)", 0, 0);
            if r != Err(coroutine::ParkError::Timeout) {
                errs.lock().unwrap().push(format!("first park of a fresh coroutine returned {:?} (stale result / cancel inherited)", r));
            } else if t0.elapsed() < Duration::from_millis(6) {
                errs.lock().unwrap().push(format!("first park(6ms) of a fresh coroutine timed out after {:?}", t0.elapsed()));
            }
            let b2 = Blocker::current();
            b2.unpark();
            let r2 = b2.park(None);
            if r2.is_err() {
                errs.lock().unwrap().push(format!("park after unpark on a fresh coroutine returned {:?}", r2));
            }
            let ok = std::panic::catch_unwind(|| coroutine::sleep(Duration::from_millis(1)));
            if ok.is_err() {
                errs.lock().unwrap().push("sleep in a fresh coroutine raised a panic (inherited cancel)".into());
            }
            // privacy across yields and migration
            for _ in 0..4 {
                coroutine::yield_now();
                if CLS_ID.with(|c| c.get()) != i {
                    errs.lock().unwrap().push("local value changed across a yield".into());
                }
            }
            if CLS_ID2.with(|c| c.get()) != 500_000 + i {
                errs.lock().unwrap().push("value of the second key changed across yields".into());
            }
            if CLS_TR.with(|t| t.borrow().as_ref().map(|v| v.0)) != Some(i) {
                CLS_BAD_OWNER.fetch_add(1, SeqCst);
                errs.lock().unwrap().push("local object belongs to another coroutine".into());
            }
        });
    }
    // thread fallback: per thread
    {
        let errs = errs.clone();
        x.spawn("thread-user", false, move |_a| {
            if CLS_ID.with(|c| c.get()) != usize::MAX {
                errs.lock().unwrap().push("thread fallback value not fresh for a new thread".into());
            }
            CLS_ID.with(|c| c.set(5));
            let second = CLS_ID2.with(|c| c.get());
            if second != 424_242 {
                errs.lock().unwrap().push(format!("thread fallback: first access to a second key of the same value type gave {} instead of its initialiser's 424242", second));
            }
            CLS_ID2.with(|c| c.set(6));
            std::thread::sleep(Duration::from_micros(200));
            if CLS_ID.with(|c| c.get()) != 5 {
                errs.lock().unwrap().push("thread fallback value changed".into());
            }
            if CLS_ID2.with(|c| c.get()) != 6 {
                errs.lock().unwrap().push("thread fallback value of the second key changed".into());
            }
        });
    }
    x.desc = format!("cls predecessors residue*10+ending={:?} (residue 0 none,1 timed-out Blocker,2 select,3 park_timeout,4 cancel taken by wait_io; ending 0 return,1 panic,2 cancel in park,3 cancel in sleep) successors={} pool=2", kinds, nsucc);
    x.wait_all()?;
    x.finish()?;
    if let Some(e) = errs.lock().unwrap().first() {
        return viol(format!("coroutine-local / fresh start: {}", e));
    }
    let want = users;
    if let Err(Fail::Stranded(msg)) = x.wait_cond(&move || CLS_DROPS.load(SeqCst) - drops0 >= want) {
        return viol(format!(
            "coroutine-local objects of {} owners were created but only {} were dropped after every coroutine had ended (the local storage of a coroutine is never destroyed); {}",
            users,
            CLS_DROPS.load(SeqCst) - drops0,
            msg
        ));
    }
    std::thread::sleep(Duration::from_millis(1));
    let d = CLS_DROPS.load(SeqCst) - drops0;
    if d != users {
        return viol(format!("coroutine-local objects dropped {} times for {} owners", d, users));
    }
    let _ = inits0;
    Ok(())
}

// ------------------------------------------------------------------------------------ C14
struct Canary {
    magic: u64,
}

fn scope(x: &mut Exec) -> Res {
    let nchild = x.rng.range(1, if x.thorough { 6 } else { 3 }) as usize;
    let steps = x.rng.range(1, 5);
    let fault = x.rng.below(4); // 0 none, 1 cancel owner, 2 owner panics in scope body, 3 child panics
    let shape = x.rng.below(3); // 0 coroutine::scope, 1 join! inside select! arm, 2 nested scopes
    let owner_co = fault == 1 || shape == 1 || x.rng.chance(2, 3);
    let running = Arc::new(AtomicUsize::new(0));
    let finished = Arc::new(AtomicUsize::new(0));
    let late = Arc::new(AtomicUsize::new(0));
    let exited = Arc::new(AtomicBool::new(false));
    let bad_exit = Arc::new(AtomicUsize::new(0));
    let (running2, finished2, late2, exited2, bad2) = (running.clone(), finished.clone(), late.clone(), exited.clone(), bad_exit.clone());
    let body = move |a: &Actor| {
        struct ExitGuard {
            running: Arc<AtomicUsize>,
            exited: Arc<AtomicBool>,
            bad: Arc<AtomicUsize>,
        }
        impl Drop for ExitGuard {
            fn drop(&mut self) {
                // fires when the owner's frame is left, normally or by unwinding
                if self.running.load(SeqCst) != 0 {
                    self.bad.fetch_add(1, SeqCst);
                }
                self.exited.store(true, SeqCst);
            }
        }
        let _eg = ExitGuard { running: running2.clone(), exited: exited2.clone(), bad: bad2.clone() };
        // frame-owned data borrowed by the children; freed when this frame is left
        let canary = Box::new(Canary { magic: 0xC0FFEE });
        let child = |idx: usize, panic_child: bool| {
            let (running, finished, late, exited) = (running2.clone(), finished2.clone(), late2.clone(), exited2.clone());
            let c: &Canary = &canary;
            move || {
                struct Run(Arc<AtomicUsize>, Arc<AtomicUsize>);
                impl Drop for Run {
                    fn drop(&mut self) {
                        self.1.fetch_add(1, SeqCst);
                        self.0.fetch_sub(1, SeqCst);
                    }
                }
                running.fetch_add(1, SeqCst);
                let _r = Run(running.clone(), finished.clone());
                for s in 0..steps {
                    coroutine::sleep(Duration::from_micros(150));
                    if exited.load(SeqCst) {
                        late.fetch_add(1, SeqCst);
                        return; // do not touch the canary: the monitor itself must stay sound
                    }
                    if c.magic != 0xC0FFEE {
                        late.fetch_add(100, SeqCst);
                    }
                    if panic_child && s == 0 && idx == 0 {
                        panic!("CHILD");
                    }
                }
            }
        };
        a.call("scope", shape);
        match shape {
            0 => {
                coroutine::scope(|s| {
                    for i in 0..nchild {
                        let f = child(i, fault == 3);
                        unsafe { s.spawn(f) };
                    }
                    if fault == 2 {
                        coroutine::sleep(Duration::from_micros(100));
                        panic!("OWNER");
                    }
                });
            }
            1 => {
                let f0 = child(0, fault == 3);
                let f1 = child(1, false);
                let _ = select!(
                    _ = { join!(f0(), f1()); } => {},
                    _ = coroutine::sleep(Duration::from_micros(if fault == 2 { 100 } else { 100_000 })) => if fault == 2 { panic!("OWNER") }
                );
            }
            _ => {
                coroutine::scope(|s| {
                    let f = child(0, fault == 3);
                    unsafe { s.spawn(f) };
                    coroutine::scope(|s2| {
                        for i in 1..nchild.max(2) {
                            let f = child(i, false);
                            unsafe { s2.spawn(f) };
                        }
                        if fault == 2 {
                            panic!("OWNER");
                        }
                    });
                });
            }
        }
        a.ret("scope", shape, 0);
    };
    x.desc = format!("scope shape={} (0 scope,1 join! in select! arm,2 nested) children={} steps={} fault={} (0 none,1 cancel owner,2 owner panics,3 child panics) owner_co={}", shape, nchild, steps, fault, owner_co);
    let mut owner_h = None;
    if owner_co {
        let (_, h) = x.spawn_co("owner", body);
        owner_h = Some(h);
    } else {
        x.spawn("owner", false, move |a| {
            let a2 = a.clone();
            let _ = std::panic::catch_unwind(std::panic::AssertUnwindSafe(move || body(&a2)));
        });
    }
    if fault == 1 {
        let at = x.rng.below(900);
        wait_fire(at);
        if let Some(h) = &owner_h {
            unsafe { h.coroutine().cancel() };
        }
    }
    x.wait_all()?;
    let res = owner_h.map(|h| h.join());
    std::thread::sleep(Duration::from_millis(1));
    if bad_exit.load(SeqCst) != 0 {
        return viol("scope left while a child was still running (exit guard saw running > 0)");
    }
    let l = late.load(SeqCst);
    if l >= 100 {
        return viol("a scoped child read a corrupted canary (frame gone)");
    }
    if l != 0 {
        return viol(format!("{} step(s) of scoped children ran after the owner's frame was left", l));
    }
    // outcome propagation
    if let Some(r) = res {
        match (fault, r) {
            (0, Err(_)) => return viol("scope without fault: owner died"),
            // shape 1: the panic sits in the bottom half of the second select arm and only
            // happens if that arm wins against the join! arm
            (2, Ok(_)) if shape != 1 => return viol("owner panic inside the scope body was swallowed"),
            (2, Err(e)) => {
                if e.downcast_ref::<&str>() != Some(&"OWNER") {
                    return viol("owner panic payload was replaced");
                }
            }
            (3, Ok(_)) => return viol("a child's panic was not propagated to the scope owner"),
            _ => {}
        }
    }
    Ok(())
}

/// stress (run with hooks uninstalled): a short timer is armed right after the timer thread has been
/// woken by the removal of another timer, round after round with random sub-100us offsets. The
/// add_timer / timer-thread wake-up protocol has windows of a few instructions that no stall plan
/// can sit in; a lost wake-up leaves the short sleep pending with everything asleep, which the
/// quiescence oracle reports (no deadline involved).
fn tmrrace(x: &mut Exec) -> Res {
    let rounds = if x.thorough { 60_000 } else { 12_000 };
    // the helper blocks in a std channel while idle, so that a stranded sleeper leaves the process quiescent
    let (tx, rx) = std::sync::mpsc::channel::<Arc<Blocker>>();
    let errs = Arc::new(std::sync::Mutex::new(Vec::<String>::new()));
    {
        let mut r = x.rng.fork();
        x.spawn("unparker", false, move |_a| {
            while let Ok(b) = rx.recv() {
                let t0 = Instant::now();
                let d = 10 + r.below(60);
                while t0.elapsed() < Duration::from_micros(d) {
                    std::hint::spin_loop();
                }
                b.unpark();
            }
        });
    }
    {
        let errs = errs.clone();
        let mut r = x.rng.fork();
        x.spawn("sleeper", true, move |a| {
            for i in 0..rounds {
                // (1) a long timed wait that ends by an unpark: its timer is removed, which wakes the
                // timer thread (and consumes its wake-up registration)
                let b = Blocker::current();
                let _ = tx.send(b.clone());
                if b.park(Some(Duration::from_secs(600))).is_err() {
                    errs.lock().unwrap().push(format!("round {}: park(600s) + unpark returned an error", i));
                    break;
                }
                // (2) random offset, (3) a short timer that becomes the new earliest one
                let t0 = Instant::now();
                let d = r.below(150);
                while t0.elapsed() < Duration::from_micros(d) {
                    std::hint::spin_loop();
                }
                let t1 = Instant::now();
                a.call("sleep(300us)", i as u64);
                coroutine::sleep(Duration::from_micros(300));
                a.ret("sleep(300us)", i as u64, t1.elapsed().as_micros() as u64);
                if t1.elapsed() < Duration::from_micros(300) {
                    errs.lock().unwrap().push(format!("round {}: sleep(300us) returned after {:?}", i, t1.elapsed()));
                    break;
                }
            }
            drop(tx);
        });
    }
    x.desc = format!("timer race: {} rounds of [park(600s) ended by unpark after 10-70us] [0-150us] [sleep(300us)]", rounds);
    x.wait_all()?;
    if let Some(e) = errs.lock().unwrap().first() {
        return viol(format!("timer race: {}", e));
    }
    Ok(())
}
