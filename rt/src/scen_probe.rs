//! Dedicated probes for the known findings (DESIGN §5): each re-creates the listed failing shape
//! on purpose, in its own short process, so that the check can print `KNOWN-FINDING` while the
//! general sweeps exclude exactly that shape. If a finding gets repaired the probe simply passes.

use crate::util::*;
use crate::ScenDef;
use may::coroutine;
use may::os::unix::net::UnixStream;
use may::sync::{Blocker, RwLock};
use std::io::{Read, Write};
use std::os::unix::io::AsRawFd;
use std::sync::atomic::{AtomicBool, Ordering::*};
use std::sync::Arc;
use std::time::Duration;

pub fn defs() -> Vec<ScenDef> {
    let d = |name, f| ScenDef { name, f, fire: false, gate_sites: &[], pool_cap: None, only_sites: &[] };
    vec![d("probe_d2", probe_d2 as fn(&mut Exec) -> Res), d("probe_d2io", probe_d2io), d("probe_d13", probe_d13), d("probe_d14", probe_d14)]
}

/// D2: timed park; the plan stalls >= d at PARK_SUB_ARMED (no clamp: `timeout_used` is not called)
fn probe_d2(x: &mut Exec) -> Res {
    x.max_wait = Duration::from_millis(10);
    x.spawn("waiter", true, |a| {
        let b = Blocker::current();
        a.call("Blocker::park(2ms)", 0);
        let r = b.park(Some(Duration::from_millis(2)));
        a.ret("Blocker::park(2ms)", 0, r.is_ok() as u64);
    });
    x.desc = "fresh Blocker park(2ms), nobody unparks; stall of 8ms between arming the timer and publishing the coroutine".into();
    x.wait_all()
}

/// I/O sibling of D2: read with a 2 ms timeout, stall at IO_READ_SUB_ARMED
fn probe_d2io(x: &mut Exec) -> Res {
    x.max_wait = Duration::from_millis(10);
    let (a, b) = UnixStream::pair().map_err(|e| Fail::Inconclusive(format!("pair: {}", e)))?;
    let keep = Arc::new(std::sync::Mutex::new(Some(a)));
    // run the reader on a worker that does not own the fd's selector (fd % workers)
    let w = (b.as_raw_fd() as usize + 1) % x.workers;
    x.spawn_pinned("reader", w, move |act| {
        let mut b = b;
        b.set_read_timeout(Some(Duration::from_millis(2))).unwrap();
        let mut buf = [0u8; 4];
        act.call("read", b.as_raw_fd() as u64);
        let r = b.read(&mut buf);
        act.ret("read", 0, r.is_ok() as u64);
    });
    x.desc = "unix stream read with 2ms timeout, nothing written; stall of 8ms between arming the I/O timer and storing the coroutine".into();
    let r = x.wait_all();
    drop(keep);
    r
}

/// D13: cancel a coroutine that holds a read guard while other readers keep the reader-count
/// mutex busy: the guard's drop during the Cancel unwind needs that mutex -> abort
fn probe_d13(x: &mut Exec) -> Res {
    let l = Arc::new(RwLock::new(0u64));
    let stop = Arc::new(AtomicBool::new(false));
    for i in 0..3 {
        let (l, stop) = (l.clone(), stop.clone());
        x.spawn(&format!("reader{}", i), false, move |_a| {
            while !stop.load(SeqCst) {
                let g = l.read().unwrap();
                let _ = *g;
                drop(g);
            }
        });
    }
    let l2 = l.clone();
    let (_, h) = x.spawn_co("holder", move |a| {
        a.call("read+sleep loop", 0);
        loop {
            let g = l2.read().unwrap();
            coroutine::sleep(Duration::from_micros(100));
            drop(g);
        }
    });
    x.desc = "cancel a coroutine that holds an RwLockReadGuard while 3 threads loop read()".into();
    for _ in 0..20 {
        std::thread::sleep(Duration::from_millis(2));
        if h.is_done() {
            break;
        }
        unsafe { h.coroutine().cancel() };
    }
    std::thread::sleep(Duration::from_millis(20));
    stop.store(true, SeqCst);
    let r = x.wait_all();
    let _ = h.join();
    r
}

/// D14: the socket is dropped by its coroutine as soon as its write completed, while the worker
/// that ran `subscribe` is still stalled after publishing the coroutine
fn probe_d14(x: &mut Exec) -> Res {
    let n = 6;
    for c in 0..n {
        let (a, b) = UnixStream::pair().map_err(|e| Fail::Inconclusive(format!("pair: {}", e)))?;
        let sz: i32 = 4608;
        unsafe { libc::setsockopt(a.as_raw_fd(), libc::SOL_SOCKET, libc::SO_SNDBUF, &sz as *const _ as *const _, 4) };
        x.spawn(&format!("writer{}", c), true, move |act| {
            let mut a = a;
            let buf = vec![7u8; 40_000];
            act.call("write", a.as_raw_fd() as u64);
            let _ = a.write_all(&buf);
            act.ret("write", 0, 0);
            drop(a); // the socket object goes away right after the last blocking write
        });
        x.spawn(&format!("reader{}", c), true, move |act| {
            let mut b = b;
            let mut buf = vec![0u8; 3000];
            let mut got = 0;
            coroutine::sleep(Duration::from_micros(300));
            while got < 40_000 {
                act.call("read", b.as_raw_fd() as u64);
                match b.read(&mut buf) {
                    Ok(0) | Err(_) => break,
                    Ok(k) => got += k,
                }
                act.ret("read", 0, got as u64);
            }
        });
    }
    x.desc = "6 unix-stream writers that drop their socket right after write_all; stall after IO_WRITE_SUB_STORED".into();
    x.wait_all()
}
