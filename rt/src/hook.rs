//! The hook installed into `may_queue::verif`: per-site hit counters, a lock-free trace ring,
//! stall plans, fire/gate flags for role-directed windows, and the residency monitor (C01).
//! It never calls into may, never yields a coroutine, and only touches atomics (+ one sharded
//! std mutex for the residency set, taken on scheduler threads outside any coroutine).

use may::queue::verif::site;
use std::cell::Cell;
use std::collections::HashSet;
use std::sync::atomic::{AtomicBool, AtomicU32, AtomicU64, AtomicUsize, Ordering::*};
use std::sync::Mutex;
use std::time::{Duration, Instant};

pub const NSITES: usize = site::MAX as usize;
pub static HITS: [AtomicUsize; NSITES] = [const { AtomicUsize::new(0) }; NSITES];
/// total hits of the process per site (never reset; coverage table)
pub static TOTAL_HITS: [AtomicUsize; NSITES] = [const { AtomicUsize::new(0) }; NSITES];
pub static STALLED_AT: [AtomicUsize; NSITES] = [const { AtomicUsize::new(0) }; NSITES];

/// hits of sites that are not part of an idle worker / timer-thread loop: the progress counter
pub static PROGRESS: AtomicU64 = AtomicU64::new(0);
/// how often a worker found its local queue empty-handed (SCHED_AFTER_POP_NONE): an idle worker passes here a few times
/// per wake-up and then sleeps in its selector, millions of passes without any progress are a worker that spins
pub static POP_NONE: AtomicU64 = AtomicU64::new(0);
/// threads currently sleeping inside a planned stall
pub static STALLING: AtomicUsize = AtomicUsize::new(0);
pub static STALLS_HIT: AtomicUsize = AtomicUsize::new(0);

// ---- plan: up to MAXPLAN entries (site, k, micros, flags)
pub const MAXPLAN: usize = 8;
pub const F_FIRE: u32 = 1; // set FIRE when reached (before stalling)
pub const F_GATE: u32 = 2; // stall ends early when GATE is set
static PLAN_N: AtomicUsize = AtomicUsize::new(0);
static PLAN_SITE: [AtomicU32; MAXPLAN] = [const { AtomicU32::new(0) }; MAXPLAN];
static PLAN_K: [AtomicUsize; MAXPLAN] = [const { AtomicUsize::new(0) }; MAXPLAN];
static PLAN_US: [AtomicU64; MAXPLAN] = [const { AtomicU64::new(0) }; MAXPLAN];
static PLAN_FLAGS: [AtomicU32; MAXPLAN] = [const { AtomicU32::new(0) }; MAXPLAN];
static PLAN_HIT: [AtomicBool; MAXPLAN] = [const { AtomicBool::new(false) }; MAXPLAN];
pub static FIRE: AtomicBool = AtomicBool::new(false);
pub static GATE: AtomicBool = AtomicBool::new(false);
/// stalls at "timer armed, coroutine not yet published" sites are clamped to this (known finding D2)
pub static ARMED_CLAMP_US: AtomicU64 = AtomicU64::new(u64::MAX);
pub static CLAMPED: AtomicUsize = AtomicUsize::new(0);
/// 0 = off, n = one in n non-idle hits yields / spins a little
pub static NOISE: AtomicU32 = AtomicU32::new(0);

// ---- trace ring
pub const TRACE_CAP: usize = 1 << 15;
static TRACE: [AtomicU64; TRACE_CAP] = [const { AtomicU64::new(0) }; TRACE_CAP];
static TRACE_POS: AtomicUsize = AtomicUsize::new(0);

static NEXT_TIDX: AtomicUsize = AtomicUsize::new(1);
thread_local! {
    static TIDX: Cell<usize> = const { Cell::new(0) };
    static NOISE_RNG: Cell<u64> = const { Cell::new(0) };
}
pub fn tidx() -> usize {
    TIDX.with(|t| {
        if t.get() == 0 {
            t.set(NEXT_TIDX.fetch_add(1, Relaxed));
        }
        t.get()
    })
}

// ---- residency monitor
const RSHARDS: usize = 64;
static RESIDENT: [Mutex<Option<HashSet<usize>>>; RSHARDS] = [const { Mutex::new(None) }; RSHARDS];
pub static RESIDENCY_VIOLATIONS: AtomicUsize = AtomicUsize::new(0);
pub static RESIDENCY_CHECKS: AtomicUsize = AtomicUsize::new(0);
pub static RESIDENCY_WITNESS: Mutex<Option<String>> = Mutex::new(None);

// ---- timer-list contract monitor: `Entry::remove` of may_queue's mpsc list is a consumer-side operation, the consumer
// of an io timer list is the selector thread of `fd % workers`. EP_BEFORE_TIMERS(id) tells which OS thread runs selector
// `id`; IO_TIMER_UNLINK(id) is hit by whoever is about to unlink an entry of that selector's list.
pub static SELECTOR_THREAD: [AtomicUsize; 64] = [const { AtomicUsize::new(0) }; 64];
pub static UNLINK_CHECKS: AtomicUsize = AtomicUsize::new(0);
pub static UNLINK_VIOLATIONS: AtomicUsize = AtomicUsize::new(0);
pub static UNLINK_WITNESS: Mutex<Option<String>> = Mutex::new(None);

/// sites that idle worker loops / the timer-thread loop pass periodically: they are neither
/// progress nor part of an interleaving signature
pub fn is_idle_site(s: u32) -> bool {
    matches!(
        s,
        site::SCHED_AFTER_POP_NONE
            | site::SCHED_BEFORE_STEAL
            | site::SCHED_COLLECT
            | site::EP_AFTER_WAIT
            | site::EP_BEFORE_TIMERS
            | site::TT_RUN_REGISTERED
            | site::TT_BEFORE_PARK
            | site::RUN_CO_ENTER
            | site::RUN_CO_EXIT
            | site::MPSC_BULK_SLOW
            | site::MPSC_POP_EMPTYCHECK
            | site::SPMC_LPOP_LOADED
            | site::SPMC_BULK_LOADED
            | site::SPMC_POP_LOADED
    )
}

/// sites the planner never stalls (pure loop heads; stalling them only slows idle loops down)
pub fn is_unplannable_site(s: u32) -> bool {
    matches!(
        s,
        site::SCHED_AFTER_POP_NONE | site::SCHED_COLLECT | site::EP_AFTER_WAIT | site::EP_BEFORE_TIMERS | site::TT_RUN_REGISTERED | site::TT_BEFORE_PARK | site::RUN_CO_ENTER | site::RUN_CO_EXIT
    )
}

/// sites inside the "I/O timer armed, coroutine not yet stored" window (known finding D2io); the
/// deadline is computed at the start of add_timer, so the list/heap sites inside it count as well
pub fn is_armed_site(s: u32) -> bool {
    if matches!(s, site::LIST_PUSH_SWAPPED | site::LIST_PUSH_LINKED | site::TL_INSTALL_BH | site::EP_ADD_TIMER_PUSHED) {
        return true;
    }
    // IO_x_SUB_ARMED = 201, 204, ... 234
    (200..=235).contains(&s) && (s - 200) % 3 == 1
}

// ---- run-queue owner monitor: the producer side of a worker's spmc queue (`Local::push_back`, `Local::pop`) belongs to
// one OS thread for the life of the process (the scheduler reaches it through `&mut *local_queues[id].get()`): a push
// or an owner pop from a second thread is two unsynchronised writers of the tail.
static OWNER_Q: [AtomicUsize; 64] = [const { AtomicUsize::new(0) }; 64];
static OWNER_T: [AtomicUsize; 64] = [const { AtomicUsize::new(0) }; 64];
pub static OWNER_CHECKS: AtomicUsize = AtomicUsize::new(0);
pub static OWNER_VIOLATIONS: AtomicUsize = AtomicUsize::new(0);
pub static OWNER_WITNESS: Mutex<Option<String>> = Mutex::new(None);
fn owner_check(q: usize, t: usize, what: &str) {
    if q == 0 {
        return;
    }
    OWNER_CHECKS.fetch_add(1, Relaxed);
    for i in 0..64 {
        let cur = OWNER_Q[i].load(Relaxed);
        if cur == q {
            // the slot's thread is published right after the pointer; a reader that gets in between sees 0
            let o = OWNER_T[i].load(Relaxed);
            if o != 0 && o != t + 1 {
                OWNER_VIOLATIONS.fetch_add(1, SeqCst);
                let mut w = OWNER_WITNESS.lock().unwrap_or_else(|e| e.into_inner());
                if w.is_none() {
                    *w = Some(format!("{} on run queue {:#x} by OS thread #{}, the queue's owner side has been used by OS thread #{} so far", what, q, t, o - 1));
                }
            }
            return;
        }
        if cur == 0 && OWNER_Q[i].compare_exchange(0, q, SeqCst, SeqCst).is_ok() {
            OWNER_T[i].store(t + 1, SeqCst);
            return;
        }
    }
}

/// not in the site table of older may trees: the monitor is simply never fed there
const IO_TIMER_UNLINK: u32 = 250;

fn hook(s: u32, obj: usize) {
    let si = s as usize;
    if si >= NSITES {
        return;
    }
    let n = HITS[si].fetch_add(1, Relaxed) + 1;
    TOTAL_HITS[si].fetch_add(1, Relaxed);
    let t = tidx();
    let idle = is_idle_site(s);
    if s == site::SCHED_AFTER_POP_NONE {
        POP_NONE.fetch_add(1, Relaxed);
    }
    if !idle {
        PROGRESS.fetch_add(1, Relaxed);
        let pos = TRACE_POS.fetch_add(1, Relaxed);
        if pos < TRACE_CAP {
            let e = ((s as u64) << 55) | (((t as u64) & 0x7f) << 48) | ((obj as u64) & 0xffff_ffff_ffff);
            TRACE[pos].store(e, Relaxed);
        }
    }
    if s == site::RUN_CO_ENTER || s == site::RUN_CO_EXIT {
        residency(s == site::RUN_CO_ENTER, obj, t);
    }
    if s == site::SPMC_PUSH_WRITTEN {
        owner_check(obj, t, "push");
    } else if s == site::SPMC_LPOP_CLAIMED {
        owner_check(obj, t, "owner pop");
    }
    if s == site::EP_BEFORE_TIMERS && obj < 64 {
        SELECTOR_THREAD[obj].store(t + 1, Relaxed);
    }
    if s == IO_TIMER_UNLINK && obj < 64 {
        UNLINK_CHECKS.fetch_add(1, Relaxed);
        let owner = SELECTOR_THREAD[obj].load(Relaxed);
        if owner != 0 && owner != t + 1 {
            UNLINK_VIOLATIONS.fetch_add(1, SeqCst);
            let mut w = UNLINK_WITNESS.lock().unwrap_or_else(|e| e.into_inner());
            if w.is_none() {
                *w = Some(format!("an io timer entry of selector {} (its timer list is run by OS thread #{}) is being unlinked by OS thread #{}", obj, owner - 1, t));
            }
        }
    }
    let np = PLAN_N.load(Relaxed);
    for i in 0..np {
        // k = 0: every hit - of the first 64 of an execution: a party that is held at *each* step of a loop whose work
        // another party keeps renewing (a poster walking past waiters that time out every 2 ms) would never get through
        if PLAN_SITE[i].load(Relaxed) == s && (PLAN_K[i].load(Relaxed) == n || (PLAN_K[i].load(Relaxed) == 0 && n <= 64)) {
            let mut us = PLAN_US[i].load(Relaxed);
            let flags = PLAN_FLAGS[i].load(Relaxed);
            if is_armed_site(s) {
                let c = ARMED_CLAMP_US.load(Relaxed);
                if us > c {
                    us = c;
                    CLAMPED.fetch_add(1, Relaxed);
                }
            }
            PLAN_HIT[i].store(true, Relaxed);
            STALLS_HIT.fetch_add(1, Relaxed);
            STALLED_AT[si].fetch_add(1, Relaxed);
            STALLING.fetch_add(1, SeqCst);
            if flags & F_FIRE != 0 {
                FIRE.store(true, SeqCst);
            }
            if flags & F_GATE != 0 {
                let t0 = Instant::now();
                while !GATE.load(SeqCst) && t0.elapsed() < Duration::from_micros(us) {
                    std::thread::sleep(Duration::from_micros(50));
                }
            } else {
                std::thread::sleep(Duration::from_micros(us));
            }
            STALLING.fetch_sub(1, SeqCst);
        }
    }
    let noise = NOISE.load(Relaxed);
    if noise != 0 && !idle {
        let r = NOISE_RNG.with(|c| {
            let mut x = c.get();
            if x == 0 {
                x = 0x9E3779B97F4A7C15 ^ ((t as u64) << 32) ^ (n as u64);
            }
            x ^= x << 13;
            x ^= x >> 7;
            x ^= x << 17;
            c.set(x);
            x
        });
        if r % (noise as u64) == 0 {
            match (r >> 32) % 3 {
                0 => std::thread::yield_now(),
                1 => {
                    let t0 = Instant::now();
                    while t0.elapsed() < Duration::from_micros(5 + (r >> 40) % 40) {
                        std::hint::spin_loop();
                    }
                }
                _ => std::thread::sleep(Duration::from_micros(20 + (r >> 40) % 200)),
            }
        }
    }
}

fn residency(enter: bool, obj: usize, t: usize) {
    let sh = (obj >> 4) % RSHARDS;
    let mut g = RESIDENT[sh].lock().unwrap_or_else(|e| e.into_inner());
    let set = g.get_or_insert_with(HashSet::new);
    if enter {
        RESIDENCY_CHECKS.fetch_add(1, Relaxed);
        if !set.insert(obj) {
            RESIDENCY_VIOLATIONS.fetch_add(1, SeqCst);
            let mut w = RESIDENCY_WITNESS.lock().unwrap_or_else(|e| e.into_inner());
            if w.is_none() {
                *w = Some(format!("coroutine {:#x} resumed on thread #{} while still resident on another OS thread", obj, t));
            }
        }
    } else {
        set.remove(&obj);
    }
}

pub static INSTALLED: AtomicBool = AtomicBool::new(false);
pub fn install() {
    may::queue::verif::set_hook(hook);
    INSTALLED.store(true, SeqCst);
}

#[derive(Clone, Debug, Default)]
pub struct PlanEntry {
    pub site: u32,
    pub k: usize,
    pub us: u64,
    pub flags: u32,
}

/// reset per-execution state and arm a plan
pub fn begin_exec(plan: &[PlanEntry], noise: u32) {
    PLAN_N.store(0, SeqCst);
    for h in HITS.iter() {
        h.store(0, Relaxed);
    }
    TRACE_POS.store(0, Relaxed);
    FIRE.store(false, SeqCst);
    GATE.store(false, SeqCst);
    for (i, p) in plan.iter().take(MAXPLAN).enumerate() {
        PLAN_SITE[i].store(p.site, Relaxed);
        PLAN_K[i].store(p.k, Relaxed);
        PLAN_US[i].store(p.us, Relaxed);
        PLAN_FLAGS[i].store(p.flags, Relaxed);
        PLAN_HIT[i].store(false, Relaxed);
    }
    NOISE.store(noise, Relaxed);
    PLAN_N.store(plan.len().min(MAXPLAN), SeqCst);
}

pub fn end_exec() -> ExecTrace {
    PLAN_N.store(0, SeqCst);
    NOISE.store(0, Relaxed);
    let n = TRACE_POS.load(Relaxed).min(TRACE_CAP);
    let mut ev = Vec::with_capacity(n);
    for e in TRACE.iter().take(n) {
        ev.push(e.load(Relaxed));
    }
    let hits: Vec<usize> = HITS.iter().map(|h| h.load(Relaxed)).collect();
    let plan_hit: Vec<bool> = (0..MAXPLAN).map(|i| PLAN_HIT[i].load(Relaxed)).collect();
    ExecTrace { ev, hits, plan_hit }
}

pub struct ExecTrace {
    pub ev: Vec<u64>,
    pub hits: Vec<usize>,
    pub plan_hit: Vec<bool>,
}

pub fn ev_site(e: u64) -> u32 {
    (e >> 55) as u32
}
pub fn ev_tidx(e: u64) -> usize {
    ((e >> 48) & 0x7f) as usize
}
pub fn ev_obj(e: u64) -> u64 {
    e & 0xffff_ffff_ffff
}

impl ExecTrace {
    /// hash of the (site, normalised thread) sequence; number of thread switches
    pub fn signature(&self) -> (u64, usize) {
        let mut map: Vec<usize> = Vec::new();
        let mut h: u64 = 0xcbf29ce484222325;
        let mut switches = 0;
        let mut last = usize::MAX;
        for &e in &self.ev {
            let t = ev_tidx(e);
            let nt = match map.iter().position(|&x| x == t) {
                Some(p) => p,
                None => {
                    map.push(t);
                    map.len() - 1
                }
            };
            if nt != last {
                if last != usize::MAX {
                    switches += 1;
                }
                last = nt;
            }
            h ^= ((ev_site(e) as u64) << 8) | nt as u64;
            h = h.wrapping_mul(0x100000001b3);
        }
        (h, switches)
    }

    /// D2 classification: a timer fired into an empty slot between PARK_SUB_ARMED/ENTER and
    /// PARK_SUB_STORED of the same slot (the coroutine was not yet published)
    pub fn timer_fired_before_publish(&self) -> bool {
        let ev = &self.ev;
        for (i, &e) in ev.iter().enumerate() {
            if ev_site(e) != site::TIMER_FIRE {
                continue;
            }
            let slot = ev_obj(e);
            let t = ev_tidx(e);
            // took?
            let took = ev[i + 1..]
                .iter()
                .find(|&&x| ev_tidx(x) == t)
                .map(|&x| ev_site(x) == site::TIMER_FIRE_TOOK && ev_obj(x) == slot)
                .unwrap_or(false);
            if took {
                continue;
            }
            // last park event on this slot before i must be ENTER/ARMED (not STORED or later)
            let before = ev[..i].iter().rev().find(|&&x| {
                ev_obj(x) == slot
                    && matches!(
                        ev_site(x),
                        site::PARK_SUB_ENTER | site::PARK_SUB_ARMED | site::PARK_SUB_STORED | site::PARK_RESUMED
                    )
            });
            if let Some(&b) = before {
                if matches!(ev_site(b), site::PARK_SUB_ENTER | site::PARK_SUB_ARMED) {
                    return true;
                }
            }
        }
        false
    }

    /// I/O sibling of D2: the I/O timeout handler ran while the most recent I/O subscribe event
    /// was an `IO_x_SUB_ARMED` (timer armed, coroutine not yet stored)
    pub fn io_timer_fired_before_publish(&self) -> bool {
        let ev = &self.ev;
        for (i, &e) in ev.iter().enumerate() {
            if ev_site(e) != site::IO_TIMEOUT_TIMER_TAKEN {
                continue;
            }
            let before = ev[..i].iter().rev().find(|&&x| {
                let s = ev_site(x);
                (200..=235).contains(&s) && (s - 200) % 3 != 0
            });
            if let Some(&b) = before {
                if (ev_site(b) - 200) % 3 == 1 {
                    return true;
                }
            }
        }
        false
    }

    pub fn render(&self, max: usize) -> Vec<String> {
        let names = site_names();
        let start = self.ev.len().saturating_sub(max);
        self.ev[start..]
            .iter()
            .map(|&e| format!("{}@t{}:{:x}", names[ev_site(e) as usize], ev_tidx(e), ev_obj(e) & 0xffffff))
            .collect()
    }
}

pub fn site_names() -> Vec<&'static str> {
    let mut v = vec!["?"; NSITES];
    for (n, i) in site::NAMES {
        v[*i as usize] = n;
    }
    v
}
