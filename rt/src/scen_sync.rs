//! Scenario families for Mutex (C05), Semphore / SyncFlag (C10), Condvar / Barrier / WaitGroup (C11),
//! RwLock (C12). Every scenario is must-terminate: if the property holds all actors finish.

use crate::hook;
use crate::util::*;
use crate::ScenDef;
use may::sync::{Barrier, Condvar, Mutex, RwLock, Semphore, SyncFlag, WaitGroup};
use std::sync::atomic::{AtomicBool, AtomicIsize, AtomicUsize, Ordering::*};
use std::sync::{Arc, TryLockError};
use std::time::{Duration, Instant};

pub fn defs() -> Vec<ScenDef> {
    let d = |name, f, fire| ScenDef { name, f, fire, gate_sites: &[], pool_cap: None, only_sites: &[] };
    vec![
        d("mutex", mutex as fn(&mut Exec) -> Res, false),
        d("mutexc", mutexc, true),
        d("sem", sem, false),
        d("semc", semc, true),
        d("flag", flag, false),
        d("cv", cv, false),
        d("cvc", cvc, true),
        d("bar", bar, false),
        d("rw", rw, false),
        d("rwc", rwc, true),
        d("rwcr", rwcr, true),
        d("semlock", semlock, false),
        d("barc", barc, true),
        d("relock", relock, true),
        d("rwseq", rwseq, false),
        d("stale", stale, false),
        d("cvpoison", cvpoison, false),
        d("hsmutex", hsmutex, false),
        d("hssem", hssem, false),
    ]
}

/// wait until the hook raised FIRE (cancel point reached) or `fallback_us` elapsed
pub fn wait_fire(fallback_us: u64) {
    let t0 = Instant::now();
    while !hook::FIRE.load(SeqCst) && t0.elapsed() < Duration::from_micros(fallback_us) {
        std::thread::sleep(Duration::from_micros(20));
    }
}

// ------------------------------------------------------------------------------------ Mutex
fn mutex(x: &mut Exec) -> Res {
    mutex_impl(x, false)
}
fn mutexc(x: &mut Exec) -> Res {
    mutex_impl(x, true)
}

fn mutex_impl(x: &mut Exec, with_cancel: bool) -> Res {
    let n = x.rng.range(3, if x.thorough { 6 } else { 4 }) as usize;
    let iters = x.rng.range(2, if x.thorough { 6 } else { 3 });
    let m = Arc::new(Mutex::new((0u64, !0u64, 0usize)));
    let occ = Arc::new(AtomicIsize::new(0));
    let bad = Arc::new(std::sync::Mutex::new(Vec::<String>::new()));
    let sections = Arc::new(AtomicUsize::new(0));
    let try_ok_while_held = Arc::new(AtomicUsize::new(0));
    let kinds: Vec<bool> = (0..n).map(|i| if i == 0 { false } else { x.rng.chance(3, 4) }).collect();
    let cancel_idx = if with_cancel { (0..n).filter(|&i| kinds[i]).nth(x.rng.below(2) as usize).or((0..n).find(|&i| kinds[i])) } else { None };
    x.desc = format!("mutex n={} iters={} kinds(co)={:?} cancel={:?}", n, iters, kinds, cancel_idx);
    let mut target = None;
    for i in 0..n {
        let (m, occ, bad, sections, tw) = (m.clone(), occ.clone(), bad.clone(), sections.clone(), try_ok_while_held.clone());
        let mut r = x.rng.fork();
        let is_target = cancel_idx == Some(i);
        let body = move |a: &Actor| {
            for it in 0..iters {
                let use_try = r.chance(1, 4);
                let mut g = if use_try {
                    a.call("try_lock", it);
                    match m.try_lock() {
                        Ok(g) => {
                            a.ret("try_lock", it, 1);
                            g
                        }
                        Err(TryLockError::WouldBlock) => {
                            a.ret("try_lock", it, 0);
                            if r.chance(1, 2) {
                                may::coroutine::yield_now();
                            }
                            continue;
                        }
                        Err(TryLockError::Poisoned(_)) => {
                            bad.lock().unwrap().push("try_lock: poisoned without any panic".into());
                            return;
                        }
                    }
                } else {
                    a.call("lock", it);
                    match m.lock() {
                        Ok(g) => {
                            a.ret("lock", it, 1);
                            g
                        }
                        Err(_) => {
                            bad.lock().unwrap().push("lock: poisoned without any panic".into());
                            return;
                        }
                    }
                };
                let (prev, _o) = Occ::enter(&occ);
                if prev != 0 {
                    bad.lock().unwrap().push(format!("actor {} entered the section while {} other holder(s) inside", a.id, prev));
                    tw.fetch_add(use_try as usize, SeqCst);
                }
                if g.0 != !g.1 {
                    bad.lock().unwrap().push(format!("payload torn: {:#x} / {:#x} (last writer {})", g.0, g.1, g.2));
                }
                // cancel targets never leave the payload split across a blocking call
                if !is_target && r.chance(1, 3) {
                    g.0 += 1;
                    nap(r.below(150));
                    g.1 = !g.0;
                } else {
                    if r.chance(1, 3) {
                        nap(r.below(150));
                    }
                    g.0 += 1;
                    g.1 = !g.0;
                }
                g.2 = a.id as usize;
                sections.fetch_add(1, SeqCst);
                drop(_o);
                drop(g);
                a.note("unlock", it, 0);
                if r.chance(1, 2) {
                    may::coroutine::yield_now();
                }
            }
        };
        if is_target {
            let (_, h) = x.spawn_co(&format!("a{}-target", i), body);
            target = Some(h);
        } else {
            x.spawn(&format!("a{}", i), kinds[i], body);
        }
    }
    if let Some(h) = &target {
        let at = x.rng.below(600);
        wait_fire(at);
        unsafe { h.coroutine().cancel() };
    }
    x.wait_all()?;
    if let Some(h) = target {
        x.co_handles.push(h);
    }
    let b = bad.lock().unwrap();
    if !b.is_empty() {
        return viol(format!("Mutex: {}", b.join("; ")));
    }
    match m.try_lock() {
        Ok(g) => {
            if g.0 as usize != sections.load(SeqCst) {
                return viol(format!("Mutex: counter {} != completed sections {} (lost update)", g.0, sections.load(SeqCst)));
            }
        }
        Err(TryLockError::WouldBlock) => return viol("Mutex: still locked after every actor finished (lock leaked)"),
        Err(TryLockError::Poisoned(_)) => return viol("Mutex: poisoned although no section panicked (cancel unwinds must not poison)"),
    }
    Ok(())
}

// ------------------------------------------------------------------------------------ Semphore
/// prefix condition over the logical clock: successes returned <= init + posts called
fn sem_prefix_check(ev: &[Ev], init: usize) -> Result<(usize, usize), Fail> {
    let mut posts = 0usize;
    let mut succ = 0usize;
    for e in ev {
        match (e.kind, e.op) {
            (b'c', "post") => posts += 1,
            (b'r', "wait") | (b'r', "wait_timeout") | (b'r', "try_wait") if e.b == 1 => {
                succ += 1;
                if succ > init + posts {
                    return viol(format!("Semphore: at #{} {} waits had succeeded with only init {} + {} posts called (permit duplicated)", e.stamp, succ, init, posts));
                }
            }
            _ => {}
        }
    }
    Ok((posts, succ))
}

fn sem(x: &mut Exec) -> Res {
    let init = x.rng.below(3) as usize;
    let s = Arc::new(Semphore::new(init));
    let waiters = x.rng.range(2, if x.thorough { 6 } else { 4 }) as usize;
    let early = Arc::new(std::sync::Mutex::new(Vec::<String>::new()));
    let mut blocking = 0usize;
    let mut modes = vec![];
    for i in 0..waiters {
        let mode = x.rng.below(3); // 0 wait, 1 wait_timeout, 2 try_wait polling
        let is_co = if i == 0 { false } else { x.rng.chance(3, 4) };
        let ms = x.rng.range(2, 3);
        modes.push((mode, is_co, ms));
        if mode != 1 {
            blocking += 1;
        }
        if mode == 1 {
            x.timeout_used(Duration::from_millis(ms));
        }
        let (s, early) = (s.clone(), early.clone());
        x.spawn(&format!("w{}", i), is_co, move |a| match mode {
            0 => {
                a.call("wait", 0);
                s.wait();
                a.ret("wait", 0, 1);
            }
            1 => {
                let d = Duration::from_millis(ms);
                let t0 = Instant::now();
                a.call("wait_timeout", ms);
                let ok = s.wait_timeout(d);
                let el = t0.elapsed();
                a.ret("wait_timeout", ms, ok as u64);
                if !ok && el < d {
                    early.lock().unwrap().push(format!("wait_timeout({:?}) returned false after {:?}", d, el));
                }
            }
            _ => loop {
                a.call("try_wait", 0);
                let ok = s.try_wait();
                a.ret("try_wait", 0, ok as u64);
                if ok {
                    break;
                }
                nap(100);
            },
        });
    }
    // enough permits for every waiter even if the timed ones win the race
    let posts = waiters.saturating_sub(init) + x.rng.below(2) as usize;
    let poster_co = x.rng.chance(1, 2);
    x.desc = format!("sem init={} waiters(mode,co,ms)={:?} posts={} poster_co={}", init, modes, posts, poster_co);
    {
        let s = s.clone();
        let mut r = x.rng.fork();
        x.spawn("poster", poster_co, move |a| {
            for i in 0..posts {
                nap(r.below(1500));
                a.call("post", i as u64);
                s.post();
                a.ret("post", i as u64, 0);
            }
        });
    }
    let _ = blocking;
    x.wait_all()?;
    if let Some(e) = early.lock().unwrap().first() {
        return viol(format!("Semphore: {}", e));
    }
    let (p, succ) = sem_prefix_check(&x.log.snapshot(), init)?;
    let expect = init + p - succ;
    if s.get_value() != expect {
        return viol(format!("Semphore: value {} != init {} + posts {} - successful waits {} (permit lost or duplicated)", s.get_value(), init, p, succ));
    }
    Ok(())
}

/// a semaphore with `init` permits used as a lock: never more than `init` parties between wait and post. Sections last
/// about as long as the planned stalls, so a post keeps landing while other parties are between registering and counting.
fn semlock(x: &mut Exec) -> Res {
    let init = x.rng.range(1, 2) as usize;
    let s = Arc::new(Semphore::new(init));
    let parties = x.rng.range(3, 4) as usize;
    let sections = x.rng.range(4, if x.thorough { 16 } else { 8 });
    let inside = Arc::new(AtomicIsize::new(0));
    let errs = Arc::new(std::sync::Mutex::new(Vec::<String>::new()));
    let mut kinds = vec![];
    for i in 0..parties {
        let (s, inside, errs) = (s.clone(), inside.clone(), errs.clone());
        let is_co = if i < 2 { false } else { x.rng.chance(1, 2) };
        kinds.push(is_co);
        let mut r = x.rng.fork();
        x.spawn(&format!("p{}", i), is_co, move |a| {
            for k in 0..sections {
                a.call("wait", k);
                s.wait();
                a.ret("wait", k, 1);
                let n = inside.fetch_add(1, SeqCst) + 1;
                if n as usize > init {
                    errs.lock().unwrap().push(format!("{} parties between wait and post of a Semphore::new({}) (a permit was duplicated)", n, init));
                }
                nap(r.below(900));
                inside.fetch_sub(1, SeqCst);
                a.call("post", k);
                s.post();
                a.ret("post", k, 0);
                if r.chance(1, 3) {
                    nap(r.below(300));
                }
            }
        });
    }
    x.desc = format!("semaphore({}) as a lock: {} parties (co={:?}) x {} sections", init, parties, kinds, sections);
    x.wait_all()?;
    if let Some(e) = errs.lock().unwrap().first() {
        return viol(format!("Semphore: {}", e));
    }
    if s.get_value() != init {
        return viol(format!("Semphore: value {} after equal numbers of waits and posts on Semphore::new({})", s.get_value(), init));
    }
    Ok(())
}

fn semc(x: &mut Exec) -> Res {
    let s = Arc::new(Semphore::new(0));
    let waiters = 3usize;
    let mut target = None;
    let mut modes = vec![];
    for i in 0..waiters {
        let timed = x.rng.chance(1, 3);
        let ms = x.rng.range(2, 3);
        modes.push((timed, ms));
        if timed {
            x.timeout_used(Duration::from_millis(ms));
        }
        let s = s.clone();
        let is_target = i == 1;
        let body = move |a: &Actor| {
            if timed {
                loop {
                    a.call("wait_timeout", ms);
                    let ok = s.wait_timeout(Duration::from_millis(ms));
                    a.ret("wait_timeout", ms, ok as u64);
                    if ok {
                        break;
                    }
                }
            } else {
                a.call("wait", 0);
                s.wait();
                a.ret("wait", 0, 1);
            }
            if is_target {
                // a target that got its permit keeps it and ends in a cancellable wait
                loop {
                    may::coroutine::park();
                }
            }
        };
        if is_target {
            let (_, h) = x.spawn_co("w1-target", body);
            target = Some(h);
        } else {
            x.spawn(&format!("w{}", i), i != 0, body);
        }
    }
    let posts = waiters;
    let poster_co = x.rng.chance(1, 2);
    {
        let s = s.clone();
        let mut r = x.rng.fork();
        x.spawn("poster", poster_co, move |a| {
            for i in 0..posts {
                nap(r.below(800));
                a.call("post", i as u64);
                s.post();
                a.ret("post", i as u64, 0);
            }
        });
    }
    let at = x.rng.below(900);
    x.desc = format!("semc waiters(timed,ms)={:?} posts={} poster_co={} cancel_at<={}us", modes, posts, poster_co, at);
    wait_fire(at);
    let h = target.unwrap();
    unsafe { h.coroutine().cancel() };
    x.wait_all()?;
    match h.join() {
        Err(e) if is_cancel_panic(&e) => {}
        Err(_) => return viol("Semphore+cancel: target ended with a non-Cancel panic"),
        Ok(_) => return viol("Semphore+cancel: join() of the cancelled endless target returned Ok"),
    }
    let (p, succ) = sem_prefix_check(&x.log.snapshot(), 0)?;
    if s.get_value() != p - succ {
        return viol(format!("Semphore+cancel: value {} != posts {} - successful waits {} (a permit that raced with the cancel was lost or duplicated)", s.get_value(), p, succ));
    }
    Ok(())
}

// ------------------------------------------------------------------------------------ SyncFlag
fn flag(x: &mut Exec) -> Res {
    let f = Arc::new(SyncFlag::new());
    let n = x.rng.range(2, 4) as usize;
    let fire_after = x.rng.below(1500);
    let errs = Arc::new(std::sync::Mutex::new(Vec::<String>::new()));
    let fired_ret = Arc::new(AtomicBool::new(false));
    for i in 0..n {
        let (f, errs) = (f.clone(), errs.clone());
        let timed = x.rng.chance(1, 2);
        let ms = x.rng.range(2, 3);
        if timed {
            x.timeout_used(Duration::from_millis(ms));
        }
        x.spawn(&format!("w{}", i), i != 0, move |a| {
            if timed {
                loop {
                    let t0 = Instant::now();
                    a.call("wait_timeout", ms);
                    let ok = f.wait_timeout(Duration::from_millis(ms));
                    a.ret("wait_timeout", ms, ok as u64);
                    if ok {
                        break;
                    }
                    if t0.elapsed() < Duration::from_millis(ms) {
                        errs.lock().unwrap().push(format!("wait_timeout({}ms) returned false after {:?}", ms, t0.elapsed()));
                    }
                }
            } else {
                a.call("wait", 0);
                f.wait();
                a.ret("wait", 0, 1);
            }
            if !f.is_fired() {
                errs.lock().unwrap().push("wait returned true but is_fired() is false".into());
            }
        });
    }
    {
        // sampler: after fire() returned the flag must never read un-fired again
        let (f, errs, fr) = (f.clone(), errs.clone(), fired_ret.clone());
        x.spawn("sampler", true, move |a| {
            let mut seen = 0u64;
            for _ in 0..400 {
                let after = fr.load(SeqCst);
                let v = f.is_fired();
                if after && !v {
                    errs.lock().unwrap().push("is_fired() == false after fire() had returned".into());
                }
                if after {
                    seen += 1;
                    if seen > 20 {
                        break;
                    }
                }
                may::coroutine::yield_now();
                if seen == 0 {
                    nap(50);
                }
            }
            a.note("sampled", seen, 0);
        });
    }
    // one to three firers, all around the same moment (fire is a latch: firing twice is allowed and changes nothing)
    let firers = x.rng.range(1, 3) as usize;
    for fi in 0..firers {
        let (f, fr) = (f.clone(), fired_ret.clone());
        let co = x.rng.chance(1, 2);
        let jitter = x.rng.below(120);
        x.spawn(&format!("firer{}", fi), co, move |a| {
            nap(fire_after + jitter);
            a.call("fire", 0);
            f.fire();
            a.ret("fire", 0, 0);
            fr.store(true, SeqCst);
        });
    }
    x.desc = format!("flag waiters={} firers={} fire_after={}us", n, firers, fire_after);
    x.wait_all()?;
    if let Some(e) = errs.lock().unwrap().first() {
        return viol(format!("SyncFlag: {}", e));
    }
    if !f.is_fired() || !f.wait_timeout(Duration::from_millis(1)) {
        return viol("SyncFlag: reads un-fired after fire");
    }
    Ok(())
}

// ------------------------------------------------------------------------------------ Condvar
fn cv(x: &mut Exec) -> Res {
    cv_impl(x, false)
}
fn cvc(x: &mut Exec) -> Res {
    cv_impl(x, true)
}

fn cv_impl(x: &mut Exec, with_cancel: bool) -> Res {
    let pair = Arc::new((Mutex::new((0usize, 0u64)), Condvar::new())); // (tokens, generation)
    let occ = Arc::new(AtomicIsize::new(0));
    let errs = Arc::new(std::sync::Mutex::new(Vec::<String>::new()));
    let consumers = x.rng.range(2, if x.thorough { 5 } else { 3 }) as usize;
    let use_all = x.rng.chance(1, 4); // producers use notify_all instead of notify_one
    // give-up mode: a timed consumer that times out (and the cancel target) *leaves* without taking a token, and there
    // are exactly as many tokens as patient consumers. A notify_one that lands on a waiter which is just giving up
    // must be passed on: otherwise a patient consumer sleeps on although a token is there.
    let giveup = x.rng.chance(1, 2);
    let mut target = None;
    let mut modes = vec![];
    let patient_left = Arc::new(AtomicUsize::new(0));
    let impatient_left = Arc::new(AtomicUsize::new(0));
    let mut npatient = 0usize;
    for i in 0..consumers {
        let (pair, occ, errs) = (pair.clone(), occ.clone(), errs.clone());
        let timed = if giveup && i == 0 { false } else { x.rng.chance(1, 2) };
        let ms = x.rng.range(2, 3);
        if timed {
            x.timeout_used(Duration::from_millis(ms));
        }
        let is_co = i != 0;
        modes.push((timed, ms, is_co));
        let is_target = with_cancel && i == 1;
        let patient = !(timed || is_target);
        let left = if patient { patient_left.clone() } else { impatient_left.clone() };
        left.fetch_add(1, SeqCst);
        if patient {
            npatient += 1;
        }
        let body = move |a: &Actor| {
            // counted down also when the body is left by the cancel unwind
            let _left = OnDrop(Some(move || {
                left.fetch_sub(1, SeqCst);
            }));
            let (m, c) = (&pair.0, &pair.1);
            a.call("lock", 0);
            let mut g = m.lock().unwrap();
            a.ret("lock", 0, 0);
            let mut gave_up = false;
            while g.0 == 0 {
                if timed {
                    let t0 = Instant::now();
                    a.call("cv.wait_timeout", ms);
                    let (g2, r) = c.wait_timeout(g, Duration::from_millis(ms)).unwrap();
                    g = g2;
                    a.ret("cv.wait_timeout", ms, r.timed_out() as u64);
                    if r.timed_out() && t0.elapsed() < Duration::from_millis(ms) {
                        errs.lock().unwrap().push(format!("wait_timeout({}ms) reported timed_out after {:?}", ms, t0.elapsed()));
                    }
                    if giveup && r.timed_out() {
                        gave_up = true;
                    }
                } else {
                    a.call("cv.wait", 0);
                    g = c.wait(g).unwrap();
                    a.ret("cv.wait", 0, 0);
                }
                // wait must have re-acquired the mutex
                let (prev, _o) = Occ::enter(&occ);
                if prev != 0 {
                    errs.lock().unwrap().push(format!("mutex not exclusively owned after wait returned ({} others inside)", prev));
                }
                if gave_up {
                    break;
                }
            }
            if !gave_up {
                g.0 -= 1;
                a.note("took", g.0 as u64, 0);
            } else {
                a.note("gave up", g.0 as u64, 0);
            }
            drop(g);
            if is_target {
                loop {
                    may::coroutine::park();
                }
            }
        };
        if is_target {
            let (_, h) = x.spawn_co("c1-target", body);
            target = Some(h);
        } else {
            x.spawn(&format!("c{}", i), is_co, body);
        }
    }
    // normal mode: tokens >= consumers, a lost notify_one strands a consumer. give-up mode: tokens == patient consumers.
    let producers = 2usize;
    let total = if giveup { npatient } else { 2 * ((consumers + 1) / 2) };
    let prod_left = Arc::new(AtomicUsize::new(producers));
    for p in 0..producers {
        let (pair, occ, errs, prod_left) = (pair.clone(), occ.clone(), errs.clone(), prod_left.clone());
        let mut r = x.rng.fork();
        let per = total / 2 + if p == 0 { total % 2 } else { 0 };
        x.spawn(&format!("p{}", p), p == 0, move |a| {
            for i in 0..per {
                nap(r.below(if giveup { 3500 } else { 1200 }));
                let mut g = pair.0.lock().unwrap();
                let (prev, _o) = Occ::enter(&occ);
                if prev != 0 {
                    errs.lock().unwrap().push(format!("producer entered while {} inside", prev));
                }
                g.0 += 1;
                g.1 += 1;
                a.call("notify", i as u64);
                if use_all {
                    pair.1.notify_all();
                } else {
                    pair.1.notify_one();
                }
                a.ret("notify", i as u64, g.0 as u64);
                drop(_o);
                drop(g);
            }
            prod_left.fetch_sub(1, SeqCst);
        });
    }
    x.desc = format!("cv consumers(timed,ms,co)={:?} tokens={} notify_all={} cancel={} giveup={}", modes, total, use_all, with_cancel, giveup);
    if let Some(h) = &target {
        let at = x.rng.below(900);
        wait_fire(at);
        unsafe { h.coroutine().cancel() };
    }
    if giveup {
        // settle: every token was taken, or nobody patient is left waiting. Quiescence before that = a patient consumer
        // asleep beside a token whose notify_one was issued: the lost notification.
        let (pl, il, pr, pair2) = (patient_left.clone(), impatient_left.clone(), prod_left.clone(), pair.clone());
        let r = x.wait_cond(&move || {
            // every impatient consumer has left (timed ones at their timeout, the target by its cancel)
            if pr.load(SeqCst) != 0 || il.load(SeqCst) != 0 {
                return false;
            }
            if pl.load(SeqCst) == 0 {
                return true;
            }
            match pair2.0.try_lock() {
                Ok(g) => g.0 == 0,
                Err(_) => false,
            }
        });
        if let Err(Fail::Stranded(msg)) = r {
            let tokens = pair.0.try_lock().map(|g| g.0 as i64).unwrap_or(-1);
            return Err(Fail::Stranded(format!(
                "give-up mode: {} patient consumer(s) still asleep with {} token(s) available although every token came with its notify (a notification landed on a waiter that was giving up and was not passed on); {}",
                patient_left.load(SeqCst),
                tokens,
                msg
            )));
        }
        r?;
        // release the patient consumers whose token an impatient one took
        let mut g = pair.0.lock().unwrap();
        g.0 += patient_left.load(SeqCst);
        pair.1.notify_all();
        drop(g);
    }
    x.wait_all()?;
    if let Some(h) = target {
        match h.join() {
            Err(e) if is_cancel_panic(&e) => {}
            Err(_) => return viol("Condvar+cancel: target ended with a non-Cancel panic"),
            Ok(_) => return viol("Condvar+cancel: join() of the cancelled endless target returned Ok"),
        }
    }
    if let Some(e) = errs.lock().unwrap().first() {
        return viol(format!("Condvar: {}", e));
    }
    match pair.0.try_lock() {
        Ok(_) => {}
        Err(TryLockError::WouldBlock) => return viol("Condvar: mutex still held after all actors finished"),
        Err(_) => return viol("Condvar: mutex poisoned without a panic in a section"),
    };
    Ok(())
}

/// a notified waiter is re-locking the mutex (cancel ignored there) when its cancel arrives, exactly while the holder's
/// unlock is handing the mutex over: the hand-over must not be lost
fn relock(x: &mut Exec) -> Res {
    let pair = Arc::new((Mutex::new(false), Condvar::new()));
    let n_wait = x.rng.range(1, 2) as usize;
    let mut targets = vec![];
    let occ = Arc::new(AtomicIsize::new(0));
    let errs = Arc::new(std::sync::Mutex::new(Vec::<String>::new()));
    for i in 0..n_wait {
        let (pair, occ, errs) = (pair.clone(), occ.clone(), errs.clone());
        let (_, h) = x.spawn_co(&format!("waiter{}", i), move |a| {
            let (m, c) = (&pair.0, &pair.1);
            a.call("lock", 0);
            let mut g = m.lock().unwrap();
            a.ret("lock", 0, 0);
            while !*g {
                a.call("cv.wait", 0);
                g = c.wait(g).unwrap();
                a.ret("cv.wait", 0, 0);
            }
            // we own the mutex here: nobody else may be inside for as long as we keep it
            if occ.fetch_add(1, SeqCst) != 0 {
                errs.lock().unwrap().push("the waiter came back from cv.wait owning the mutex while somebody else was inside".into());
            }
            std::thread::sleep(Duration::from_micros(150));
            occ.fetch_sub(1, SeqCst);
            drop(g);
        });
        targets.push(h);
    }
    let pair2 = pair.clone();
    let (occ2, errs2) = (occ.clone(), errs.clone());
    let hold_us = x.rng.below(400);
    let mut r = x.rng.fork();
    x.spawn("holder", false, move |a| {
        let (m, c) = (&pair2.0, &pair2.1);
        // give the waiters time to queue up on the condvar (they hold the mutex until they wait)
        nap(300);
        a.call("lock", 1);
        let mut g = m.lock().unwrap();
        a.ret("lock", 1, 0);
        *g = true;
        c.notify_all();
        // the notified waiters now queue up on the mutex
        nap(hold_us);
        drop(g);
        for round in 0..3 {
            nap(r.below(200));
            a.call("lock", 2 + round);
            let g = m.lock().unwrap();
            a.ret("lock", 2 + round, 0);
            if occ2.fetch_add(1, SeqCst) != 0 {
                errs2.lock().unwrap().push("the holder got the mutex while a waiter that had come back from cv.wait still owned it (lock released twice)".into());
            }
            nap(r.below(100));
            occ2.fetch_sub(1, SeqCst);
            drop(g);
        }
    });
    x.desc = format!("condvar re-lock under cancel: {} notified waiter(s) queue on the mutex for <= {}us, cancelled around the holder's unlock", n_wait, hold_us);
    let at = 300 + x.rng.below(900);
    wait_fire(at);
    for h in &targets {
        unsafe { h.coroutine().cancel() };
    }
    x.wait_all()?;
    for h in targets {
        match h.join() {
            Ok(()) => {}
            Err(e) if is_cancel_panic(&e) => {}
            Err(_) => return viol("relock: a waiter ended with a non-Cancel panic"),
        }
    }
    if let Some(e) = errs.lock().unwrap().first() {
        return viol(format!("relock: {}", e));
    }
    let res = match pair.0.try_lock() {
        Ok(_) => Ok(()),
        Err(TryLockError::WouldBlock) => viol("relock: mutex still held after all actors finished"),
        Err(_) => viol("relock: mutex poisoned although only Cancel unwinds happened"),
    };
    res
}

/// a reused Barrier with one coroutine party that is cancelled while it waits in generation 0 (a substitute takes its
/// place from generation 1 on). The hook counters tell when the target is registered inside the barrier, so its
/// arrival always counts and the cancel races only with the release of generation 0 and the arrivals for generation 1.
fn barc(x: &mut Exec) -> Res {
    if !hook::INSTALLED.load(SeqCst) {
        return Ok(());
    }
    let n = x.rng.range(2, 3) as usize;
    let gens = x.rng.range(2, if x.thorough { 8 } else { 4 }) as usize;
    let b = Arc::new(Barrier::new(n));
    let arrivals = Arc::new(AtomicUsize::new(0));
    let errs = Arc::new(std::sync::Mutex::new(Vec::<String>::new()));
    let gen0_done = Arc::new(AtomicBool::new(false));
    let registered = || hook::HITS[may::queue::verif::site::CV_WAIT_PUSHED as usize].load(SeqCst);
    // the target: generation 0 only
    let (tb, tarr) = (b.clone(), arrivals.clone());
    let (_, target) = x.spawn_co("target", move |a| {
        tarr.fetch_add(1, SeqCst);
        a.call("barrier.wait", 0);
        let _ = tb.wait();
        a.ret("barrier.wait", 0, 0);
        loop {
            may::coroutine::park();
        }
    });
    // regular parties; party 0 is the last arrival of generation 0: it waits until everybody else is registered
    for i in 0..n - 1 {
        let (b, arrivals, errs, gen0) = (b.clone(), arrivals.clone(), errs.clone(), gen0_done.clone());
        let mut r = x.rng.fork();
        let gate = i == 0;
        x.spawn(&format!("b{}", i), i != 0 || r.chance(1, 2), move |a| {
            for g in 0..gens {
                if gate && g == 0 {
                    let t0 = Instant::now();
                    while hook::HITS[may::queue::verif::site::CV_WAIT_PUSHED as usize].load(SeqCst) < n - 1 && t0.elapsed() < Duration::from_secs(4) {
                        nap(50);
                    }
                    nap(r.below(600));
                } else if r.chance(1, 3) {
                    nap(r.below(200));
                }
                arrivals.fetch_add(1, SeqCst);
                a.call("barrier.wait", g as u64);
                let _ = b.wait();
                let seen = arrivals.load(SeqCst);
                a.ret("barrier.wait", g as u64, seen as u64);
                if seen < n * (g + 1) {
                    errs.lock().unwrap().push(format!("a party was released from generation {} of Barrier({}) after only {} of {} arrivals", g, n, seen, n * (g + 1)));
                }
                if g == 0 {
                    gen0.store(true, SeqCst);
                }
            }
        });
    }
    // the substitute: generations 1.. (it must not arrive before generation 0 is complete, a barrier counts arrivals)
    {
        let (b, arrivals, errs, gen0) = (b.clone(), arrivals.clone(), errs.clone(), gen0_done.clone());
        let mut r = x.rng.fork();
        x.spawn("substitute", true, move |a| {
            let t0 = Instant::now();
            while !gen0.load(SeqCst) && t0.elapsed() < Duration::from_secs(8) {
                nap(50);
            }
            for g in 1..gens {
                nap(r.below(400));
                arrivals.fetch_add(1, SeqCst);
                a.call("barrier.wait", g as u64);
                let _ = b.wait();
                let seen = arrivals.load(SeqCst);
                a.ret("barrier.wait", g as u64, seen as u64);
                if seen < n * (g + 1) {
                    errs.lock().unwrap().push(format!("the substitute was released from generation {} of Barrier({}) after only {} of {} arrivals", g, n, seen, n * (g + 1)));
                }
            }
        });
    }
    x.desc = format!("reused Barrier({}) x {} generations, one coroutine party cancelled while it waits in generation 0", n, gens);
    // cancel only once the target's arrival is counted
    {
        let t0 = Instant::now();
        while registered() < n - 1 && t0.elapsed() < Duration::from_secs(4) {
            std::thread::sleep(Duration::from_micros(50));
        }
        if registered() < n - 1 {
            return Err(Fail::Inconclusive("the parties of generation 0 did not register within 4 s".into()));
        }
    }
    let at = x.rng.below(900);
    wait_fire(at);
    unsafe { target.coroutine().cancel() };
    x.wait_all()?;
    match target.join() {
        Err(e) if is_cancel_panic(&e) => {}
        Err(_) => return viol("Barrier+cancel: target ended with a non-Cancel panic"),
        Ok(_) => return viol("Barrier+cancel: join() of the cancelled endless target returned Ok"),
    }
    if let Some(e) = errs.lock().unwrap().first() {
        return viol(format!("Barrier: {}", e));
    }
    Ok(())
}

// ------------------------------------------------------------------------------------ Barrier + WaitGroup
fn bar(x: &mut Exec) -> Res {
    let n = x.rng.range(2, if x.thorough { 6 } else { 4 }) as usize;
    let gens = x.rng.range(2, if x.thorough { 12 } else { 4 }) as usize;
    let b = Arc::new(Barrier::new(n));
    let arrivals = Arc::new(AtomicUsize::new(0));
    let leaders: Arc<Vec<AtomicUsize>> = Arc::new((0..gens).map(|_| AtomicUsize::new(0)).collect());
    let errs = Arc::new(std::sync::Mutex::new(Vec::<String>::new()));
    for i in 0..n {
        let (b, arrivals, leaders, errs) = (b.clone(), arrivals.clone(), leaders.clone(), errs.clone());
        let mut r = x.rng.fork();
        x.spawn(&format!("b{}", i), i != 0, move |a| {
            for g in 0..gens {
                if r.chance(1, 2) {
                    nap(r.below(300));
                }
                arrivals.fetch_add(1, SeqCst);
                a.call("barrier.wait", g as u64);
                let res = b.wait();
                let seen = arrivals.load(SeqCst);
                a.ret("barrier.wait", g as u64, res.is_leader() as u64);
                if seen < n * (g + 1) {
                    errs.lock().unwrap().push(format!("generation {} released after only {} of {} arrivals", g, seen, n * (g + 1)));
                }
                if res.is_leader() {
                    leaders[g].fetch_add(1, SeqCst);
                }
            }
        });
    }
    x.desc = format!("barrier n={} generations={}", n, gens);
    x.wait_all()?;
    for g in 0..gens {
        let l = leaders[g].load(SeqCst);
        if l != 1 {
            return viol(format!("Barrier: generation {} had {} leaders", g, l));
        }
    }
    if let Some(e) = errs.lock().unwrap().first() {
        return viol(format!("Barrier: {}", e));
    }
    // WaitGroup: wait returns exactly when every other clone has been dropped
    let wg = WaitGroup::new();
    let dropped = Arc::new(AtomicUsize::new(0));
    let k = x.rng.range(1, 4) as usize;
    let base = x.actors.len();
    for i in 0..k {
        let (w, dropped) = (wg.clone(), dropped.clone());
        let d = x.rng.below(500);
        x.spawn(&format!("wgc{}", i), i != 0, move |a| {
            nap(d);
            dropped.fetch_add(1, SeqCst);
            a.call("wg.drop", 0);
            drop(w);
            a.ret("wg.drop", 0, 0);
        });
    }
    {
        let (dropped, errs) = (dropped.clone(), errs.clone());
        let co = x.rng.chance(1, 2);
        x.spawn("wg-waiter", co, move |a| {
            a.call("wg.wait", 0);
            wg.wait();
            let d = dropped.load(SeqCst);
            a.ret("wg.wait", 0, d as u64);
            if d != k {
                errs.lock().unwrap().push(format!("WaitGroup::wait returned after {} of {} clones were dropped", d, k));
            }
        });
    }
    let _ = base;
    x.wait_all()?;
    if let Some(e) = errs.lock().unwrap().first() {
        return viol(format!("WaitGroup: {}", e));
    }
    Ok(())
}

// ------------------------------------------------------------------------------------ RwLock
struct Dec(Arc<AtomicIsize>);
impl Drop for Dec {
    fn drop(&mut self) {
        self.0.fetch_sub(1, SeqCst);
    }
}

fn poison_rw(l: &Arc<RwLock<u64>>) {
    let l2 = l.clone();
    let _ = std::thread::spawn(move || {
        let _g = l2.write().unwrap_or_else(|e| e.into_inner());
        std::panic::panic_any(0u8);
    })
    .join();
}

fn rw(x: &mut Exec) -> Res {
    rw_impl(x, false)
}
fn rwc(x: &mut Exec) -> Res {
    rw_impl(x, true)
}

fn rw_impl(x: &mut Exec, with_cancel: bool) -> Res {
    let l = Arc::new(RwLock::new(0u64));
    let poisoned = x.rng.chance(1, 3);
    if poisoned {
        poison_rw(&l);
    }
    let rd = Arc::new(AtomicIsize::new(0));
    let wr = Arc::new(AtomicIsize::new(0));
    let errs = Arc::new(std::sync::Mutex::new(Vec::<String>::new()));
    let n = x.rng.range(3, if x.thorough { 6 } else { 4 }) as usize;
    let iters = 3;
    let mut target = None;
    // the cancel target is a *writer* waiter: cancelling a read-guard holder while other readers
    // contend is known finding D13 (process abort) and probed separately
    for i in 0..n {
        let (l, rd, wr, errs) = (l.clone(), rd.clone(), wr.clone(), errs.clone());
        let mut r = x.rng.fork();
        let is_target = with_cancel && i == 2;
        let writer = i % 2 == 1 || is_target;
        let body = move |a: &Actor| {
            for it in 0..iters {
                let tr = r.chance(1, 3);
                if writer {
                    a.call(if tr { "try_write" } else { "write" }, it);
                    let g = if tr {
                        match l.try_write() {
                            Ok(g) => Some(g),
                            Err(TryLockError::Poisoned(e)) => Some(e.into_inner()),
                            Err(TryLockError::WouldBlock) => None,
                        }
                    } else {
                        Some(l.write().unwrap_or_else(|e| e.into_inner()))
                    };
                    a.ret(if tr { "try_write" } else { "write" }, it, g.is_some() as u64);
                    if let Some(mut g) = g {
                        let w = wr.fetch_add(1, SeqCst);
                        let _d = Dec(wr.clone());
                        let rr = rd.load(SeqCst);
                        if w != 0 || rr != 0 {
                            errs.lock().unwrap().push(format!("writer entered with {} writer(s) and {} reader(s) inside", w, rr));
                        }
                        if r.chance(1, 3) {
                            may::coroutine::yield_now();
                        }
                        *g += 1;
                        drop(_d);
                        drop(g);
                    }
                } else {
                    a.call(if tr { "try_read" } else { "read" }, it);
                    let g = if tr {
                        match l.try_read() {
                            Ok(g) => Some(g),
                            Err(TryLockError::Poisoned(e)) => Some(e.into_inner()),
                            Err(TryLockError::WouldBlock) => None,
                        }
                    } else {
                        Some(l.read().unwrap_or_else(|e| e.into_inner()))
                    };
                    a.ret(if tr { "try_read" } else { "read" }, it, g.is_some() as u64);
                    if let Some(g) = g {
                        rd.fetch_add(1, SeqCst);
                        let _d = Dec(rd.clone());
                        let w = wr.load(SeqCst);
                        if w != 0 {
                            errs.lock().unwrap().push(format!("reader inside together with {} writer(s)", w));
                        }
                        if r.chance(1, 3) {
                            nap(50);
                        }
                        let _v = *g;
                        drop(_d);
                        let dr = std::panic::catch_unwind(std::panic::AssertUnwindSafe(|| drop(g)));
                        if dr.is_err() {
                            errs.lock().unwrap().push("dropping a read guard panicked".into());
                        }
                    }
                }
                if r.chance(1, 2) {
                    may::coroutine::yield_now();
                }
            }
        };
        if is_target {
            let (_, h) = x.spawn_co("a2-target-writer", body);
            target = Some(h);
        } else {
            x.spawn(&format!("a{}{}", i, if writer { "w" } else { "r" }), i >= 1, body);
        }
    }
    x.desc = format!("rwlock n={} poisoned={} cancel={}", n, poisoned, with_cancel);
    if let Some(h) = &target {
        let at = x.rng.below(300);
        wait_fire(at);
        unsafe { h.coroutine().cancel() };
    }
    x.wait_all()?;
    if let Some(h) = target {
        x.co_handles.push(h);
    }
    if let Some(e) = errs.lock().unwrap().first() {
        return viol(format!("RwLock: {} (poisoned={})", e, poisoned));
    }
    if let Err(TryLockError::WouldBlock) = l.try_write() {
        return viol(format!("RwLock: try_write is WouldBlock after all guards were dropped (poisoned={})", poisoned));
    }
    let r1 = l.try_read();
    let r2 = l.try_read();
    if matches!(r1, Err(TryLockError::WouldBlock)) || matches!(r2, Err(TryLockError::WouldBlock)) {
        return viol("RwLock: two try_read on a free lock did not both succeed");
    }
    Ok(())
}

/// cancel a *reader* at any point of read()/guard/drop, then check that the lock still excludes.
/// While the target lives it is the only reader (writers only besides it), so the reader-count mutex is never
/// contended and the known finding D13 (a guard dropped by a Cancel unwind has to block) cannot interfere;
/// the other readers start only after the target is gone.
fn rwcr(x: &mut Exec) -> Res {
    let l = Arc::new(RwLock::new(0u64));
    let poisoned = x.rng.chance(1, 4);
    if poisoned {
        poison_rw(&l);
    }
    let rd = Arc::new(AtomicIsize::new(0));
    let wr = Arc::new(AtomicIsize::new(0));
    let errs = Arc::new(std::sync::Mutex::new(Vec::<String>::new()));
    let phase2 = Arc::new(AtomicBool::new(false));
    let stop = Arc::new(AtomicBool::new(false));
    let nw = x.rng.range(1, 2) as usize;
    let hold_us = x.rng.below(400);
    // writers: hold the lock for a while again and again until told to stop
    for i in 0..nw {
        let (l, rd, wr, errs, stop) = (l.clone(), rd.clone(), wr.clone(), errs.clone(), stop.clone());
        let mut r = x.rng.fork();
        x.spawn(&format!("w{}", i), r.chance(1, 2), move |a| {
            let mut it = 0;
            while !stop.load(SeqCst) && it < 400 {
                a.call("write", it);
                let mut g = l.write().unwrap_or_else(|e| e.into_inner());
                a.ret("write", it, 1);
                let w = wr.fetch_add(1, SeqCst);
                let rr = rd.load(SeqCst);
                if w != 0 || rr != 0 {
                    errs.lock().unwrap().push(format!("writer entered with {} writer(s) and {} reader(s) inside", w, rr));
                }
                nap(r.below(hold_us + 1));
                let rr = rd.load(SeqCst);
                if rr != 0 {
                    errs.lock().unwrap().push(format!("{} reader(s) entered while a write guard was alive", rr));
                }
                *g += 1;
                wr.fetch_sub(1, SeqCst);
                drop(g);
                it += 1;
                nap(r.below(60));
            }
        });
    }
    // in half of the instances other readers are active beside the target: the target itself never blocks while it
    // holds a guard (so no Cancel unwind ever drops one, D13 stays out), but its read_unlock may have to wait for
    // the reader-count mutex at the moment of the cancel
    let early_readers = if x.rng.chance(1, 2) { x.rng.range(1, 2) as usize } else { 0 };
    for i in 0..early_readers {
        let (l, rd, wr, errs, stop) = (l.clone(), rd.clone(), wr.clone(), errs.clone(), stop.clone());
        let mut r = x.rng.fork();
        x.spawn(&format!("er{}", i), r.chance(1, 2), move |a| {
            let mut it = 0;
            while !stop.load(SeqCst) && it < 600 {
                a.call("read", it);
                let g = l.read().unwrap_or_else(|e| e.into_inner());
                a.ret("read", it, 1);
                rd.fetch_add(1, SeqCst);
                let w = wr.load(SeqCst);
                if w != 0 {
                    errs.lock().unwrap().push(format!("reader inside together with {} writer(s)", w));
                }
                let _v = *g;
                rd.fetch_sub(1, SeqCst);
                drop(g);
                it += 1;
                if r.chance(1, 4) {
                    nap(r.below(40));
                }
            }
        });
    }
    // the target: the only reader of phase 1 unless `early_readers`
    let (tl, trd, twr, terrs) = (l.clone(), rd.clone(), wr.clone(), errs.clone());
    let mut tr = x.rng.fork();
    let (_, target) = x.spawn_co("target-reader", move |a| {
        for it in 0..200 {
            a.call("read", it);
            let g = tl.read().unwrap_or_else(|e| e.into_inner());
            a.ret("read", it, 1);
            trd.fetch_add(1, SeqCst);
            let w = twr.load(SeqCst);
            if w != 0 {
                terrs.lock().unwrap().push(format!("reader inside together with {} writer(s)", w));
            }
            let _v = *g;
            trd.fetch_sub(1, SeqCst);
            drop(g);
            if tr.chance(1, 3) {
                may::coroutine::yield_now();
            }
        }
    });
    x.desc = format!("rwlock: cancel a reader that never blocks under its guard ({} writer(s) holding <= {}us, {} other early readers), then 2 readers + writers; poisoned={}", nw, hold_us, early_readers, poisoned);
    let at = x.rng.below(600);
    wait_fire(at);
    unsafe { target.coroutine().cancel() };
    {
        let t = &target;
        x.wait_cond(&|| t.is_done())?;
    }
    x.co_handles.push(target);
    // phase 2: readers that must still be excluded by the writers
    phase2.store(true, SeqCst);
    let mut readers_done = vec![];
    for i in 0..2 {
        let (l, rd, wr, errs) = (l.clone(), rd.clone(), wr.clone(), errs.clone());
        let mut r = x.rng.fork();
        let done = Arc::new(AtomicBool::new(false));
        readers_done.push(done.clone());
        x.spawn(&format!("r{}", i), i == 0, move |a| {
            for it in 0..6 {
                let tr = r.chance(1, 3);
                a.call(if tr { "try_read" } else { "read" }, it);
                let g = if tr {
                    match l.try_read() {
                        Ok(g) => Some(g),
                        Err(TryLockError::Poisoned(e)) => Some(e.into_inner()),
                        Err(TryLockError::WouldBlock) => None,
                    }
                } else {
                    Some(l.read().unwrap_or_else(|e| e.into_inner()))
                };
                a.ret(if tr { "try_read" } else { "read" }, it, g.is_some() as u64);
                if let Some(g) = g {
                    rd.fetch_add(1, SeqCst);
                    let w = wr.load(SeqCst);
                    if w != 0 {
                        errs.lock().unwrap().push(format!("after a reader was cancelled: reader inside together with {} writer(s)", w));
                    }
                    nap(r.below(80));
                    let _v = *g;
                    rd.fetch_sub(1, SeqCst);
                    drop(g);
                }
                nap(r.below(80));
            }
            done.store(true, SeqCst);
        });
    }
    x.wait_cond(&|| readers_done.iter().all(|d| d.load(SeqCst)))?;
    stop.store(true, SeqCst);
    x.wait_all()?;
    if let Some(e) = errs.lock().unwrap().first() {
        return viol(format!("RwLock: {} (poisoned={})", e, poisoned));
    }
    if let Err(TryLockError::WouldBlock) = l.try_write() {
        return viol(format!("RwLock: try_write is WouldBlock after all guards were dropped and a reader had been cancelled (poisoned={})", poisoned));
    }
    let r1 = l.try_read();
    let r2 = l.try_read();
    if matches!(r1, Err(TryLockError::WouldBlock)) || matches!(r2, Err(TryLockError::WouldBlock)) {
        return viol("RwLock: two try_read on a free lock did not both succeed");
    }
    Ok(())
}

/// sequential random operation sequences against a small reference model
fn rwseq(x: &mut Exec) -> Res {
    #[allow(dead_code)]
    enum G<'a> {
        R(may::sync::RwLockReadGuard<'a, u64>),
        W(may::sync::RwLockWriteGuard<'a, u64>),
    }
    let l = Arc::new(RwLock::new(0u64));
    let mut guards: Vec<G> = Vec::new();
    let mut readers = 0usize;
    let mut writer = false;
    let mut poisoned = false;
    let mut trace = Vec::new();
    let a = x.passive_actor("seq");
    let steps = x.rng.range(10, 40);
    for step in 0..steps {
        let op = x.rng.below(7);
        match op {
            0 | 1 => {
                // try_read
                a.call("try_read", step);
                let r = l.try_read();
                let should = !writer;
                let (got, g) = match r {
                    Ok(g) => (true, Some((g, false))),
                    Err(TryLockError::Poisoned(e)) => (true, Some((e.into_inner(), true))),
                    Err(TryLockError::WouldBlock) => (false, None),
                };
                a.ret("try_read", step, got as u64);
                trace.push(format!("try_read->{}", got));
                if got != should {
                    return viol(format!("RwLock model: try_read returned guard={} with writer={} readers={} poisoned={}; ops={:?}", got, writer, readers, poisoned, trace));
                }
                if let Some((g, p)) = g {
                    if p != poisoned {
                        return viol(format!("RwLock model: try_read poisoned={} but model poisoned={}; ops={:?}", p, poisoned, trace));
                    }
                    readers += 1;
                    guards.push(G::R(g));
                }
            }
            2 => {
                a.call("try_write", step);
                let r = l.try_write();
                let should = !writer && readers == 0;
                let (got, g) = match r {
                    Ok(g) => (true, Some(g)),
                    Err(TryLockError::Poisoned(e)) => (true, Some(e.into_inner())),
                    Err(TryLockError::WouldBlock) => (false, None),
                };
                a.ret("try_write", step, got as u64);
                trace.push(format!("try_write->{}", got));
                if got != should {
                    return viol(format!("RwLock model: try_write returned guard={} with writer={} readers={} poisoned={}; ops={:?}", got, writer, readers, poisoned, trace));
                }
                if let Some(g) = g {
                    writer = true;
                    guards.push(G::W(g));
                }
            }
            3 if !writer => {
                // blocking read is allowed by the model: must not block (we are the only actor)
                a.call("read", step);
                let g = l.read().unwrap_or_else(|e| e.into_inner());
                a.ret("read", step, 1);
                trace.push("read".into());
                readers += 1;
                guards.push(G::R(g));
            }
            4 | 5 if !guards.is_empty() => {
                let i = x.rng.below(guards.len() as u64) as usize;
                let g = guards.swap_remove(i);
                let was_w = matches!(g, G::W(_));
                let r = std::panic::catch_unwind(std::panic::AssertUnwindSafe(move || drop(g)));
                trace.push(format!("drop({})", if was_w { "w" } else { "r" }));
                if r.is_err() {
                    return viol(format!("RwLock model: dropping a {} guard panicked; ops={:?}", if was_w { "write" } else { "read" }, trace));
                }
                if was_w {
                    writer = false
                } else {
                    readers -= 1
                }
            }
            6 if !writer && readers == 0 && !poisoned => {
                poison_rw(&l);
                poisoned = true;
                trace.push("poison".into());
                if !l.is_poisoned() {
                    return viol("RwLock model: panic under a write guard did not poison the lock");
                }
            }
            _ => {}
        }
    }
    for g in guards.drain(..) {
        let r = std::panic::catch_unwind(std::panic::AssertUnwindSafe(move || drop(g)));
        if r.is_err() {
            return viol(format!("RwLock model: dropping a guard panicked; ops={:?}", trace));
        }
    }
    x.desc = format!("rwseq ops={:?}", trace);
    match l.try_write() {
        Err(TryLockError::WouldBlock) => return viol(format!("RwLock model: try_write is WouldBlock after every guard was dropped; ops={:?}", trace)),
        _ => {}
    }
    Ok(())
}


// ------------------------------------------------------------------------------------ C05 / C10 / C11 / C12: many waiters that gave up
/// A waiter that gives up (time-out, cancel) stays in the primitive's wait queue; whoever posts / notifies / unlocks / fires
/// next has to get past all of them. That walk used to be a recursion, one level per stale waiter (D35): the operation
/// overflowed the stack of the coroutine that called it and the permit / lock / notification was lost half way. The
/// operation runs on a coroutine with may's *default* stack size here (the harness runs its actors on larger ones).
fn stale(x: &mut Exec) -> Res {
    let kind = x.rng.below(5); // 0 semaphore, 1 condvar, 2 flag, 3 mutex (cancelled waiters), 4 rwlock (cancelled waiters)
    let n = *x.rng.pick(&[40usize, 300, 1200, if x.thorough { 6000 } else { 2500 }]);
    let n = if kind >= 3 { n.min(1500) } else { n };
    let errs = Arc::new(std::sync::Mutex::new(Vec::<String>::new()));
    let what = ["Semphore::post after timed-out waits", "Condvar::notify_one after timed-out waits", "SyncFlag::fire after timed-out waits", "Mutex unlock after cancelled lockers", "RwLock write-unlock after cancelled writers"][kind as usize];
    x.desc = format!("{}: {} waiters that gave up in a row, the operation runs on a coroutine with the default stack", what, n);
    // run `op` on a coroutine with the default stack size, report how it ended
    fn on_default_stack<F: FnOnce() + Send + 'static>(a: &Actor, name: &'static str, op: F) -> bool {
        a.call(name, 0);
        let h = unsafe { may::coroutine::Builder::new().stack_size(0x1000).spawn(op) };
        let ok = match h {
            Ok(h) => h.join().is_ok(),
            Err(_) => false,
        };
        a.ret(name, 0, ok as u64);
        ok
    }
    match kind {
        0 => {
            let sem = Arc::new(Semphore::new(0));
            let e = errs.clone();
            x.spawn("driver", true, move |a| {
                a.call("wait_timeout_xN", n as u64);
                for _ in 0..n {
                    if sem.wait_timeout(Duration::from_micros(30)) {
                        e.lock().unwrap().push("wait_timeout succeeded on a semaphore nobody posted".into());
                    }
                }
                a.ret("wait_timeout_xN", n as u64, 0);
                let s2 = sem.clone();
                if !on_default_stack(a, "post", move || s2.post()) {
                    e.lock().unwrap().push(format!("post() after {} timed-out waits did not return (panicked: stack overflow of the posting coroutine)", n));
                }
                if sem.get_value() != 1 {
                    e.lock().unwrap().push(format!("value {} after one post and {} timed-out waits (expected 1: the permit got lost among the waiters that had given up)", sem.get_value(), n));
                }
                a.call("wait", 0);
                let got = sem.wait_timeout(Duration::from_millis(200));
                a.ret("wait", 0, got as u64);
                if !got {
                    e.lock().unwrap().push("the posted permit cannot be taken".into());
                }
            });
        }
        1 => {
            let pair = Arc::new((Mutex::new(0u32), Condvar::new()));
            let e = errs.clone();
            x.spawn("driver", true, move |a| {
                a.call("cv_wait_timeout_xN", n as u64);
                {
                    let mut g = pair.0.lock().unwrap();
                    for _ in 0..n {
                        g = pair.1.wait_timeout(g, Duration::from_micros(30)).unwrap().0;
                    }
                }
                a.ret("cv_wait_timeout_xN", n as u64, 0);
                // a live waiter behind the stale ones must get the notification
                let p2 = pair.clone();
                let woken = Arc::new(AtomicBool::new(false));
                let w2 = woken.clone();
                let h = unsafe {
                    may::coroutine::spawn(move || {
                        let mut g = p2.0.lock().unwrap();
                        while *g == 0 {
                            g = p2.1.wait(g).unwrap();
                        }
                        w2.store(true, SeqCst);
                    })
                };
                nap(2000);
                *pair.0.lock().unwrap() = 1;
                let p3 = pair.clone();
                if !on_default_stack(a, "notify_one", move || p3.1.notify_one()) {
                    e.lock().unwrap().push(format!("notify_one() after {} timed-out waits did not return (panicked: stack overflow of the notifying coroutine)", n));
                    // release the waiter so that the execution can end
                    pair.1.notify_all();
                }
                a.call("join_waiter", 0);
                let t0 = Instant::now();
                while !h.is_done() && t0.elapsed() < Duration::from_secs(5) {
                    may::coroutine::sleep(Duration::from_millis(1));
                }
                a.ret("join_waiter", 0, h.is_done() as u64);
                if !woken.load(SeqCst) {
                    e.lock().unwrap().push(format!("the waiter behind {} stale entries was not woken by notify_one", n));
                    pair.1.notify_all();
                }
                let _ = h.join();
            });
        }
        2 => {
            let f = Arc::new(SyncFlag::new());
            let e = errs.clone();
            x.spawn("driver", true, move |a| {
                a.call("flag_wait_timeout_xN", n as u64);
                for _ in 0..n {
                    if f.wait_timeout(Duration::from_micros(30)) {
                        e.lock().unwrap().push("wait_timeout returned true on a flag nobody fired".into());
                    }
                }
                a.ret("flag_wait_timeout_xN", n as u64, 0);
                let f2 = f.clone();
                if !on_default_stack(a, "fire", move || f2.fire()) {
                    e.lock().unwrap().push(format!("fire() after {} timed-out waits did not return (panicked: stack overflow of the firing coroutine)", n));
                }
                if !f.is_fired() || !f.wait_timeout(Duration::from_millis(100)) {
                    e.lock().unwrap().push("the flag does not read fired after fire()".into());
                }
            });
        }
        _ => {
            let e = errs.clone();
            x.spawn("driver", true, move |a| {
                let m = Arc::new(Mutex::new(0u32));
                let rw = Arc::new(RwLock::new(0u32));
                let (tx, rx) = may::sync::mpsc::channel::<()>();
                let (m2, rw2) = (m.clone(), rw.clone());
                // the holder releases on a coroutine with the default stack
                a.call("hold", 0);
                let holder = unsafe {
                    may::coroutine::Builder::new().stack_size(0x1000).spawn(move || {
                        if kind == 3 {
                            let g = m2.lock().unwrap();
                            let _ = rx.recv();
                            drop(g);
                        } else {
                            let g = rw2.write().unwrap();
                            let _ = rx.recv();
                            drop(g);
                        }
                    })
                }
                .unwrap();
                nap(500);
                let mut hs = vec![];
                for _ in 0..n {
                    let (m3, rw3) = (m.clone(), rw.clone());
                    hs.push(unsafe {
                        may::coroutine::spawn(move || {
                            if kind == 3 {
                                let _g = m3.lock().unwrap();
                            } else {
                                let _g = rw3.write().unwrap();
                            }
                        })
                    });
                }
                nap(3000 + n as u64 * 2);
                for h in &hs {
                    unsafe { h.coroutine().cancel() };
                }
                for h in hs {
                    let _ = h.join();
                }
                a.ret("hold", 0, 0);
                a.call("unlock", 0);
                let _ = tx.send(());
                let ok = holder.join().is_ok();
                a.ret("unlock", 0, ok as u64);
                if !ok {
                    e.lock().unwrap().push(format!("the unlock after {} cancelled waiters did not return (panicked: stack overflow of the unlocking coroutine)", n));
                }
                let free = if kind == 3 { m.try_lock().is_ok() } else { rw.try_write().is_ok() };
                if !free {
                    e.lock().unwrap().push(format!("the lock is still held after its holder released it behind {} cancelled waiters", n));
                }
            });
        }
    }
    x.wait_all()?;
    if let Some(e) = errs.lock().unwrap().first() {
        return viol(format!("{}: {}", what, e));
    }
    Ok(())
}


// ------------------------------------------------------------------------------------ C11 / C13: condvar wait on a mutex that gets poisoned
/// The notifier sets the flag, notifies and panics while it holds the mutex. Every wait / wait_timeout / wait_while then
/// returns `Err(PoisonError(guard))` as std does - *holding the mutex*: while a waiter keeps the guard it took out of the
/// error nobody else may get the lock, and after it dropped it the (poisoned) mutex works as before for everybody.
fn cvpoison(x: &mut Exec) -> Res {
    let waiters = x.rng.range(1, 3) as usize;
    let pair = Arc::new((Mutex::new(0u32), Condvar::new()));
    let inside = Arc::new(AtomicIsize::new(0));
    let errs = Arc::new(std::sync::Mutex::new(Vec::<String>::new()));
    let ready = Arc::new(AtomicUsize::new(0));
    let mut kinds = vec![];
    for i in 0..waiters {
        let (pair, inside, errs, ready) = (pair.clone(), inside.clone(), errs.clone(), ready.clone());
        let is_co = x.rng.chance(1, 2);
        let mode = x.rng.below(3); // wait, wait_timeout, wait_while
        kinds.push((is_co, mode));
        let hold_us = x.rng.below(1500);
        x.spawn(&format!("w{}", i), is_co, move |a| {
            let g0 = match pair.0.lock() {
                Ok(g) => g,
                Err(p) => p.into_inner(),
            };
            ready.fetch_add(1, SeqCst);
            a.call("cv_wait", mode);
            // the guard comes back inside Ok or inside the PoisonError: either way the caller now holds the mutex
            let mut g = g0;
            let mut poisoned = false;
            loop {
                if *g != 0 {
                    break;
                }
                match mode {
                    0 => match pair.1.wait(g) {
                        Ok(g2) => g = g2,
                        Err(p) => {
                            poisoned = true;
                            g = p.into_inner();
                        }
                    },
                    1 => match pair.1.wait_timeout(g, Duration::from_millis(300)) {
                        Ok((g2, _)) => g = g2,
                        Err(p) => {
                            poisoned = true;
                            g = p.into_inner().0;
                        }
                    },
                    _ => match pair.1.wait_while(g, |v| *v == 0) {
                        Ok(g2) => g = g2,
                        Err(p) => {
                            poisoned = true;
                            g = p.into_inner();
                        }
                    },
                }
            }
            a.ret("cv_wait", mode, poisoned as u64);
            // we hold the guard: the occupancy monitor says whether we hold the mutex too
            let n = inside.fetch_add(1, SeqCst) + 1;
            if n != 1 {
                errs.lock().unwrap().push(format!("{} parties hold a guard of the mutex at once after a condvar wait returned (poisoned={}): the wait did not re-acquire the mutex", n, poisoned));
            }
            *g += 1;
            nap(hold_us);
            inside.fetch_sub(1, SeqCst);
            drop(g);
        });
    }
    let notifier_co = x.rng.chance(1, 2);
    {
        let (pair, ready, inside, errs) = (pair.clone(), ready.clone(), inside.clone(), errs.clone());
        let pre = x.rng.below(800);
        x.spawn("notifier", notifier_co, move |a| {
            let t0 = Instant::now();
            while ready.load(SeqCst) < waiters && t0.elapsed() < Duration::from_secs(4) {
                nap(50);
            }
            nap(pre);
            a.call("notify_and_panic", 0);
            let r = std::panic::catch_unwind(std::panic::AssertUnwindSafe(|| {
                let mut g = pair.0.lock().unwrap();
                *g = 1;
                pair.1.notify_all();
                panic!("poisoning the mutex on purpose (expected)");
            }));
            a.ret("notify_and_panic", 0, r.is_err() as u64);
            // contenders after the poisoning: plain lock sections under the same occupancy monitor
            for k in 0..4u64 {
                a.call("lock", k);
                let g = match pair.0.lock() {
                    Ok(g) => g,
                    Err(p) => p.into_inner(),
                };
                a.ret("lock", k, 0);
                let n = inside.fetch_add(1, SeqCst) + 1;
                if n != 1 {
                    errs.lock().unwrap().push(format!("{} parties inside the poisoned mutex at once (a waiter holds a guard it got from the condvar)", n));
                }
                nap(120);
                inside.fetch_sub(1, SeqCst);
                drop(g);
            }
        });
    }
    x.desc = format!("condvar waiters (co, mode 0 wait / 1 wait_timeout / 2 wait_while) {:?}; the notifier ({}) sets the flag, notifies and panics under the lock", kinds, if notifier_co { "co" } else { "th" });
    x.wait_all()?;
    if let Some(e) = errs.lock().unwrap().first() {
        return viol(format!("Condvar + poisoned Mutex: {}", e));
    }
    // the mutex is free again and its counter is sane: lock / unlock still work
    match pair.0.try_lock() {
        Err(TryLockError::WouldBlock) => return viol("Condvar + poisoned Mutex: the mutex is still held after every guard was dropped"),
        _ => {}
    }
    let v = match pair.0.lock() {
        Ok(g) => *g,
        Err(p) => *p.into_inner(),
    };
    if v != 1 + waiters as u32 {
        return viol(format!("Condvar + poisoned Mutex: value {} after {} waiters each added 1 to the flag value 1 (a lost update: two parties were inside)", v, waiters));
    }
    Ok(())
}

// ------------------------------------------------------------------------------------ handshake stress
// The cancel / time-out paths of Mutex, Semphore, Condvar, RwLock and SyncFlag share one handshake
// (waiter: set_release, re-check is_unparked; waker: unpark, take_release). Its windows are a few
// instructions wide and both sides run on different OS threads, so besides the stall sweeps these
// two scenarios race cancel against unlock / post thousands of times per execution with random
// sub-microsecond offsets and check the primitive after every round (no waiting: a stranded lock or
// a lost permit is visible at once).

fn spin(n: u64) {
    for _ in 0..n {
        std::hint::spin_loop();
    }
}

struct Racer {
    round: Arc<AtomicUsize>,
    done: Arc<AtomicUsize>,
    stop: Arc<AtomicBool>,
    slot: Arc<std::sync::Mutex<Option<may::coroutine::Coroutine>>>,
    h: Option<std::thread::JoinHandle<()>>,
}
impl Racer {
    /// helper thread that cancels the coroutine in `slot` each time `round` advances, after `delay` spins
    fn start(seed: u64) -> Racer {
        let round = Arc::new(AtomicUsize::new(0));
        let done = Arc::new(AtomicUsize::new(0));
        let stop = Arc::new(AtomicBool::new(false));
        let slot: Arc<std::sync::Mutex<Option<may::coroutine::Coroutine>>> = Default::default();
        let (r2, d2, s2, sl2) = (round.clone(), done.clone(), stop.clone(), slot.clone());
        let h = std::thread::spawn(move || {
            let mut r = Rng::new(seed);
            let mut seen = 0;
            loop {
                while r2.load(SeqCst) == seen {
                    if s2.load(SeqCst) {
                        return;
                    }
                    std::hint::spin_loop();
                }
                seen += 1;
                spin(r.below(400));
                if let Some(c) = sl2.lock().unwrap().take() {
                    unsafe { c.cancel() };
                }
                d2.store(seen, SeqCst);
            }
        });
        Racer { round, done, stop, slot, h: Some(h) }
    }
    fn fire(&self, co: may::coroutine::Coroutine) -> usize {
        *self.slot.lock().unwrap() = Some(co);
        self.round.fetch_add(1, SeqCst) + 1
    }
    fn wait(&self, n: usize) {
        while self.done.load(SeqCst) < n {
            std::hint::spin_loop();
        }
    }
}
impl Drop for Racer {
    fn drop(&mut self) {
        self.stop.store(true, SeqCst);
        if let Some(h) = self.h.take() {
            let _ = h.join();
        }
    }
}

fn hsmutex(x: &mut Exec) -> Res {
    let rounds = if x.thorough { 20_000 } else { 4_000 };
    let racer = Racer::start(x.rng.next());
    let a = x.passive_actor("driver");
    let mut got_lock = 0u64;
    let mut cancelled = 0u64;
    for round in 0..rounds {
        let m = Arc::new(Mutex::new(0u32));
        let g = m.lock().unwrap();
        let parked = Arc::new(AtomicBool::new(false));
        let (m2, p2) = (m.clone(), parked.clone());
        let w = go!(move || {
            p2.store(true, SeqCst);
            let g = m2.lock().unwrap();
            drop(g);
            // keep the coroutine cancellable to the end
            loop {
                may::coroutine::park();
            }
        });
        while !parked.load(SeqCst) {
            std::hint::spin_loop();
        }
        spin(200 + x.rng.below(1500)); // let W reach its park
        let n = racer.fire(w.coroutine().clone());
        // the cancelled waiter runs its cancel path only after a wake-up latency of some
        // microseconds: spread the unlock over that range
        let far = x.rng.chance(2, 3);
        spin(x.rng.below(if far { 40_000 } else { 400 }));
        drop(g); // the unlock races with the cancel
        racer.wait(n);
        let wr = &w;
        x.wait_cond(&|| wr.is_done()).map_err(|e| match e {
            Fail::Stranded(m) => Fail::Stranded(format!("round {}: cancelled waiter never finished; {}", round, m)),
            o => o,
        })?;
        match w.join() {
            Err(e) if is_cancel_panic(&e) => cancelled += 1,
            _ => return viol(format!("round {}: join() of the cancelled waiter did not report Cancel", round)),
        }
        match m.try_lock() {
            Ok(_) => {}
            Err(TryLockError::WouldBlock) => {
                a.note("stranded", round, 0);
                return viol(format!(
                    "Mutex handshake: round {}: after the holder unlocked and the cancelled waiter ended, try_lock is WouldBlock: the lock has no owner and every later lock() would hang (cancel raced with the hand-over)",
                    round
                ));
            }
            Err(_) => return viol("Mutex handshake: poisoned by a cancel"),
        }
        got_lock += 1;
    }
    a.note("rounds", got_lock, cancelled);
    x.desc = format!("mutex cancel/unlock race: {} rounds, cancel and unlock 0-400 spins apart on two OS threads", rounds);
    Ok(())
}

fn hssem(x: &mut Exec) -> Res {
    let rounds = if x.thorough { 20_000 } else { 4_000 };
    let racer = Racer::start(x.rng.next());
    let a = x.passive_actor("driver");
    for round in 0..rounds {
        let s = Arc::new(Semphore::new(0));
        let parked = Arc::new(AtomicBool::new(false));
        let got = Arc::new(AtomicBool::new(false));
        let timed = x.rng.chance(1, 3);
        let (s2, p2, g2) = (s.clone(), parked.clone(), got.clone());
        let w = go!(move || {
            p2.store(true, SeqCst);
            let ok = if timed { s2.wait_timeout(Duration::from_millis(1)) } else { s2.wait(); true };
            g2.store(ok, SeqCst);
            if timed {
                return;
            }
            loop {
                may::coroutine::park();
            }
        });
        while !parked.load(SeqCst) {
            std::hint::spin_loop();
        }
        if timed {
            // race the post with the 1 ms time-out instead of a cancel
            let t0 = Instant::now();
            let d = 950 + x.rng.below(120);
            while t0.elapsed() < Duration::from_micros(d) {
                std::hint::spin_loop();
            }
            s.post();
        } else {
            spin(200 + x.rng.below(1500));
            let n = racer.fire(w.coroutine().clone());
            let far = x.rng.chance(2, 3);
            spin(x.rng.below(if far { 40_000 } else { 400 }));
            s.post();
            racer.wait(n);
        }
        let wr = &w;
        x.wait_cond(&|| wr.is_done())?;
        let _ = w.join();
        let took = got.load(SeqCst) as usize;
        if s.get_value() != 1 - took {
            a.note("lost", round, 0);
            return viol(format!(
                "Semphore handshake: round {}: one post, waiter {} -> value should be {} but is {} (permit {} while {} raced with the post)",
                round,
                if took == 1 { "got the permit" } else { "did not get it" },
                1 - took,
                s.get_value(),
                if s.get_value() > 1 - took { "duplicated" } else { "lost" },
                if timed { "the time-out" } else { "the cancel" }
            ));
        }
    }
    x.desc = format!("semaphore cancel|timeout/post race: {} rounds", rounds);
    Ok(())
}
