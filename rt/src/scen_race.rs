//! High-volume hand-off races, run with the hook uninstalled (`--no-hook`): two parties pass a turn
//! back and forth 10^4-10^5 times per execution through one primitive, so that every round trip
//! crosses the "waiter registers / re-checks while the waker publishes / wakes" window twice, at
//! native speed and on different OS threads. Windows between two adjacent instructions (which no
//! stall plan can hold open, and which the hook's own atomics would even fence) are hit by volume.
//! A lost wake-up strands one party: everything goes quiet with its call open, which the quiescence
//! oracle reports; values and counters are checked as well.

use crate::util::*;
use crate::ScenDef;
use may::coroutine;
use may::os::unix::net::UnixStream;
use may::sync::{mpmc, mpsc, spsc, Blocker, Condvar, Mutex, Semphore};
use std::io::{Read, Write};
use std::sync::atomic::{AtomicIsize, AtomicU64, AtomicUsize, Ordering::*};
use std::sync::Arc;
use std::time::Duration;

pub fn defs() -> Vec<ScenDef> {
    let d = |name, f| ScenDef { name, f, fire: false, gate_sites: &[], pool_cap: None, only_sites: &[] };
    vec![
        d("chanrace", chanrace as fn(&mut Exec) -> Res),
        d("lockrace", lockrace),
        d("semrace", semrace),
        d("parkrace", parkrace),
        d("joinrace", joinrace),
        d("cvrace", cvrace),
        d("cqrace", cqrace),
        d("iorace", iorace),
        d("iotrace", iotrace),
    ]
}

fn rounds(x: &Exec, quick: u64) -> u64 {
    if x.thorough {
        quick * 5
    } else {
        quick
    }
}

// ------------------------------------------------------------------------------------ channels (C06)
fn chanrace(x: &mut Exec) -> Res {
    let kind = x.rng.below(3);
    let n = rounds(x, 30_000);
    let (a_co, b_co) = (x.rng.chance(1, 2), x.rng.chance(1, 2));
    let errs = Arc::new(std::sync::Mutex::new(Vec::<String>::new()));
    macro_rules! pingpong {
        ($chan:path) => {{
            let (tx1, rx1) = $chan();
            let (tx2, rx2) = $chan();
            let e1 = errs.clone();
            x.spawn("ping", a_co, move |a| {
                for i in 0..n {
                    a.call("send+recv", i);
                    if tx1.send(i).is_err() {
                        e1.lock().unwrap().push(format!("send {} failed", i));
                        return;
                    }
                    match rx2.recv() {
                        Ok(v) if v == i + 1 => {}
                        other => {
                            e1.lock().unwrap().push(format!("ping: round {} received {:?}", i, other));
                            return;
                        }
                    }
                    a.ret("send+recv", i, 0);
                }
            });
            let e2 = errs.clone();
            x.spawn("pong", b_co, move |a| {
                for i in 0..n {
                    a.call("recv+send", i);
                    match rx1.recv() {
                        Ok(v) if v == i => {}
                        other => {
                            e2.lock().unwrap().push(format!("pong: round {} received {:?}", i, other));
                            return;
                        }
                    }
                    if tx2.send(i + 1).is_err() {
                        e2.lock().unwrap().push(format!("send {} failed", i));
                        return;
                    }
                    a.ret("recv+send", i, 0);
                }
            });
        }};
    }
    match kind {
        0 => pingpong!(mpsc::channel::<u64>),
        1 => pingpong!(spsc::channel::<u64>),
        _ => pingpong!(mpmc::channel::<u64>),
    }
    x.desc = format!("{} ping-pong, {} round trips, ping={} pong={}", ["mpsc", "spsc", "mpmc"][kind as usize], n, if a_co { "co" } else { "th" }, if b_co { "co" } else { "th" });
    x.wait_all()?;
    if let Some(e) = errs.lock().unwrap().first() {
        return viol(format!("channel hand-off: {}", e));
    }
    Ok(())
}

// ------------------------------------------------------------------------------------ Mutex (C05)
fn lockrace(x: &mut Exec) -> Res {
    // half of the instances: plain threads only, three or four of them - every step of lock()/unlock() of one party
    // can then fall between two adjacent steps of two others (first-registered vs first-counted and the like)
    let threads_only = x.rng.chance(1, 2);
    let actors = if threads_only { x.rng.range(3, 4) as usize } else { x.rng.range(2, 4) as usize };
    let per = rounds(x, if threads_only { 400_000 } else { 60_000 }) / actors as u64;
    let m = Arc::new(Mutex::new((0u64, !0u64)));
    let occ = Arc::new(AtomicIsize::new(0));
    let errs = Arc::new(std::sync::Mutex::new(Vec::<String>::new()));
    let mut kinds = vec![];
    for i in 0..actors {
        let (m, occ, errs) = (m.clone(), occ.clone(), errs.clone());
        let is_co = if i == 0 || threads_only { false } else { x.rng.chance(2, 3) };
        kinds.push(is_co);
        let mut r = x.rng.fork();
        x.spawn(&format!("l{}", i), is_co, move |a| {
            for k in 0..per {
                a.call("lock", k);
                let mut g = if r.chance(1, 6) {
                    match m.try_lock() {
                        Ok(g) => g,
                        Err(_) => {
                            a.ret("lock", k, 0);
                            continue;
                        }
                    }
                } else {
                    m.lock().unwrap()
                };
                if occ.fetch_add(1, SeqCst) != 0 {
                    errs.lock().unwrap().push(format!("two holders inside at iteration {}", k));
                }
                if g.0 != !g.1 {
                    errs.lock().unwrap().push("payload torn".into());
                }
                g.0 += 1;
                g.1 = !g.0;
                occ.fetch_sub(1, SeqCst);
                drop(g);
                a.ret("lock", k, 1);
                if r.chance(1, 64) {
                    coroutine::yield_now();
                }
            }
        });
    }
    x.desc = format!("mutex contention: {} actors (co={:?}) x {} lock/try_lock sections", actors, kinds, per);
    x.wait_all()?;
    if let Some(e) = errs.lock().unwrap().first() {
        return viol(format!("Mutex contention: {}", e));
    }
    if m.try_lock().is_err() {
        return viol("Mutex contention: lock not free at the end");
    }
    Ok(())
}

// ------------------------------------------------------------------------------------ Semphore (C10)
fn semrace(x: &mut Exec) -> Res {
    let n = rounds(x, 40_000);
    let (s1, s2) = (Arc::new(Semphore::new(0)), Arc::new(Semphore::new(0)));
    let (a_co, b_co) = (x.rng.chance(1, 2), x.rng.chance(1, 2));
    let timed = x.rng.chance(1, 2);
    {
        let (s1, s2) = (s1.clone(), s2.clone());
        x.spawn("ping", a_co, move |a| {
            for i in 0..n {
                a.call("post+wait", i);
                s1.post();
                if timed {
                    while !s2.wait_timeout(Duration::from_millis(2)) {}
                } else {
                    s2.wait();
                }
                a.ret("post+wait", i, 0);
            }
        });
    }
    {
        let (s1, s2) = (s1.clone(), s2.clone());
        x.spawn("pong", b_co, move |a| {
            for i in 0..n {
                a.call("wait+post", i);
                s1.wait();
                s2.post();
                a.ret("wait+post", i, 0);
            }
        });
    }
    x.desc = format!("semaphore ping-pong, {} round trips, ping={} (timed waits: {}) pong={}", n, if a_co { "co" } else { "th" }, timed, if b_co { "co" } else { "th" });
    x.wait_all()?;
    if s1.get_value() != 0 || s2.get_value() != 0 {
        return viol(format!("semaphore ping-pong: values {} / {} after equal numbers of posts and successful waits (permit lost or duplicated)", s1.get_value(), s2.get_value()));
    }
    Ok(())
}

// ------------------------------------------------------------------------------------ park / unpark (C02)
fn parkrace(x: &mut Exec) -> Res {
    let n = rounds(x, 40_000);
    let turn = Arc::new(AtomicU64::new(0));
    let gave_up = Arc::new(AtomicU64::new(0));
    let use_blocker = x.rng.chance(1, 2);
    let handle: Arc<std::sync::Mutex<Option<coroutine::Coroutine>>> = Default::default();
    let slot: Arc<std::sync::Mutex<Option<Arc<Blocker>>>> = Default::default();
    {
        // the parker is a coroutine; its subscribe runs on a worker thread
        let (turn, handle, slot) = (turn.clone(), handle.clone(), slot.clone());
        x.spawn("parker", true, move |a| {
            *handle.lock().unwrap() = Some(coroutine::current());
            for i in 0..n {
                // wait for an even turn (spurious wake-ups are allowed, lost ones are not)
                a.call("park-until-my-turn", i);
                loop {
                    if turn.load(SeqCst) % 2 == 0 {
                        break;
                    }
                    if use_blocker {
                        let b = Blocker::current();
                        *slot.lock().unwrap() = Some(b.clone());
                        // published before the re-check: either we see the new turn or the peer sees the blocker
                        if turn.load(SeqCst) % 2 == 0 {
                            break;
                        }
                        let _ = b.park(None);
                    } else {
                        coroutine::park();
                    }
                }
                a.ret("park-until-my-turn", i, 0);
                turn.fetch_add(1, SeqCst);
            }
        });
    }
    {
        // the unparker is a plain thread that spins for its turn: a genuinely parallel party
        let (turn, handle, slot) = (turn.clone(), handle.clone(), slot.clone());
        let gave_up2 = gave_up.clone();
        let mut r = x.rng.fork();
        x.spawn("unparker", false, move |_a| {
            for _ in 0..n {
                let t0 = std::time::Instant::now();
                while turn.load(SeqCst) % 2 == 0 {
                    std::hint::spin_loop();
                    // bounded: if the parker is stranded this thread must go quiet too
                    if t0.elapsed() > Duration::from_secs(3) {
                        gave_up2.store(turn.load(SeqCst) + 1, SeqCst);
                        return;
                    }
                }
                for _ in 0..r.below(200) {
                    std::hint::spin_loop();
                }
                turn.fetch_add(1, SeqCst);
                if use_blocker {
                    let b = slot.lock().unwrap().take();
                    if let Some(b) = b {
                        b.unpark();
                    }
                } else {
                    let h = handle.lock().unwrap().clone();
                    if let Some(h) = h {
                        h.unpark();
                    }
                }
            }
        });
    }
    x.desc = format!("park/unpark turn passing between a coroutine and a spinning thread, {} turns each, {}", n, if use_blocker { "fresh Blocker per wait" } else { "coroutine::park + Coroutine::unpark" });
    let r = x.wait_all();
    // the spinning unparker gives up after 3 s without its turn (turn value + 1 remembered). If the turn moved on after
    // that, the parker was only slow (a stalled machine) and then found nobody to wake it: not a verdict about may.
    let g = gave_up.load(SeqCst);
    if g != 0 && turn.load(SeqCst) + 1 != g {
        return Err(Fail::Inconclusive(format!("the spinning unparker gave up at turn {} after 3 s, the parker came back later (turn {} now)", g - 1, turn.load(SeqCst))));
    }
    r?;
    if turn.load(SeqCst) != 2 * n {
        return Err(Fail::Stranded(format!("park/unpark turn passing stopped at turn {} of {}: a wake-up was lost", turn.load(SeqCst), 2 * n)));
    }
    Ok(())
}

// ------------------------------------------------------------------------------------ spawn / join (C01)
fn joinrace(x: &mut Exec) -> Res {
    let n = rounds(x, 30_000);
    let spawner_co = x.rng.chance(1, 2);
    let errs = Arc::new(std::sync::Mutex::new(Vec::<String>::new()));
    let e2 = errs.clone();
    let ran = Arc::new(AtomicUsize::new(0));
    let r2 = ran.clone();
    let mut r = x.rng.fork();
    x.spawn("spawner", spawner_co, move |a| {
        for i in 0..n {
            let ran = r2.clone();
            let y = r.below(3);
            let h = go!(move || {
                for _ in 0..y {
                    coroutine::yield_now();
                }
                ran.fetch_add(1, SeqCst);
                i * 3 + 1
            });
            a.call("join", i);
            if r.chance(1, 4) {
                h.wait();
                if !h.is_done() {
                    e2.lock().unwrap().push(format!("wait() returned but is_done() is false for coroutine {}", i));
                }
            }
            match h.join() {
                Ok(v) if v == i * 3 + 1 => {}
                other => {
                    e2.lock().unwrap().push(format!("join of coroutine {} returned {:?}", i, other.map_err(|_| "panic")));
                    return;
                }
            }
            a.ret("join", i, 0);
            if r2.load(SeqCst) != i as usize + 1 {
                e2.lock().unwrap().push(format!("after join {} coroutines had run, expected {}", r2.load(SeqCst), i + 1));
                return;
            }
        }
    });
    x.desc = format!("spawn + immediate join, {} coroutines, spawner={}", n, if spawner_co { "co" } else { "th" });
    x.wait_all()?;
    if let Some(e) = errs.lock().unwrap().first() {
        return viol(format!("spawn/join hand-off: {}", e));
    }
    if ran.load(SeqCst) as u64 != n {
        return viol(format!("{} of {} coroutines ran", ran.load(SeqCst), n));
    }
    Ok(())
}

// ------------------------------------------------------------------------------------ Condvar (C11)
fn cvrace(x: &mut Exec) -> Res {
    let n = rounds(x, 30_000);
    let pair = Arc::new((Mutex::new(0u64), Condvar::new(), Condvar::new()));
    let (a_co, b_co) = (x.rng.chance(1, 2), x.rng.chance(1, 2));
    for me in 0..2u64 {
        let pair = pair.clone();
        x.spawn(&format!("c{}", me), if me == 0 { a_co } else { b_co }, move |a| {
            let (m, mine, theirs) = if me == 0 { (&pair.0, &pair.1, &pair.2) } else { (&pair.0, &pair.2, &pair.1) };
            for i in 0..n {
                a.call("wait-turn", i);
                let mut g = m.lock().unwrap();
                while *g % 2 != me {
                    g = mine.wait(g).unwrap();
                }
                *g += 1;
                theirs.notify_one();
                drop(g);
                a.ret("wait-turn", i, 0);
            }
        });
    }
    x.desc = format!("condvar turn passing, {} turns each, c0={} c1={}", n, if a_co { "co" } else { "th" }, if b_co { "co" } else { "th" });
    x.wait_all()?;
    if *pair.0.lock().unwrap() != 2 * n {
        return viol("condvar turn passing: counter wrong");
    }
    Ok(())
}

// ------------------------------------------------------------------------------------ cqueue (C16)
fn cqrace(x: &mut Exec) -> Res {
    let n = rounds(x, 20_000) as usize;
    let poller_co = x.rng.chance(1, 2);
    let arms = x.rng.range(1, 3) as usize;
    let errs = Arc::new(std::sync::Mutex::new(Vec::<String>::new()));
    let e2 = errs.clone();
    x.spawn("poller", poller_co, move |a| {
        let bots: Arc<Vec<AtomicUsize>> = Arc::new((0..arms).map(|_| AtomicUsize::new(0)).collect());
        may::cqueue::scope(|cq| {
            for arm in 0..arms {
                let bots = bots.clone();
                go!(cq, arm, move |es| {
                    let mut r = Rng::new(arm as u64 + 17);
                    for j in 0..n {
                        // hop back onto a worker thread now and then, otherwise arm and poller
                        // run in lock step on the poller's thread
                        if r.chance(1, 4) {
                            coroutine::yield_now();
                        }
                        es.send(j);
                        bots[arm].fetch_add(1, SeqCst);
                    }
                });
            }
            let mut got = vec![0usize; arms];
            let mut polls = 0u64;
            loop {
                polls += 1;
                a.call("poll", polls);
                match cq.poll(None) {
                    Ok(ev) => {
                        if ev.extra != got[ev.token] {
                            e2.lock().unwrap().push(format!("arm {}: event {} delivered when {} was expected", ev.token, ev.extra, got[ev.token]));
                            break;
                        }
                        got[ev.token] += 1;
                        if bots[ev.token].load(SeqCst) < got[ev.token] {
                            e2.lock().unwrap().push("event delivered before its bottom half ran".into());
                            break;
                        }
                    }
                    Err(may::cqueue::PollError::Finished) => {
                        if got.iter().any(|&g| g != n) {
                            e2.lock().unwrap().push(format!("Finished after {:?} of {} events per arm", got, n));
                        }
                        break;
                    }
                    Err(_) => {}
                }
                a.ret("poll", polls, 0);
            }
        });
    });
    x.desc = format!("cqueue event hand-off: {} arms x {} events, poller={}", arms, n, if poller_co { "co" } else { "th" });
    x.wait_all()?;
    if let Some(e) = errs.lock().unwrap().first() {
        return viol(format!("cqueue hand-off: {}", e));
    }
    Ok(())
}

// ------------------------------------------------------------------------------------ socket readiness (C17)
fn iorace(x: &mut Exec) -> Res {
    let n = rounds(x, 15_000);
    let (a, b) = UnixStream::pair().map_err(|e| Fail::Inconclusive(format!("pair: {}", e)))?;
    let (a_co, b_co) = (x.rng.chance(2, 3), x.rng.chance(2, 3));
    let errs = Arc::new(std::sync::Mutex::new(Vec::<String>::new()));
    let grave: Arc<std::sync::Mutex<Vec<UnixStream>>> = Default::default();
    let (e1, g1) = (errs.clone(), grave.clone());
    x.spawn("ping", a_co, move |act| {
        let mut s = a;
        let mut buf = [0u8; 1];
        for i in 0..n {
            act.call("write+read", i);
            if s.write_all(&[(i % 251) as u8]).is_err() {
                e1.lock().unwrap().push("write failed".into());
                break;
            }
            match s.read(&mut buf) {
                Ok(1) if buf[0] == ((i + 1) % 251) as u8 => {}
                other => {
                    e1.lock().unwrap().push(format!("ping: round {} read {:?} byte {}", i, other.map_err(|e| e.kind()), buf[0]));
                    break;
                }
            }
            act.ret("write+read", i, 0);
        }
        g1.lock().unwrap().push(s);
    });
    let (e2, g2) = (errs.clone(), grave.clone());
    x.spawn("pong", b_co, move |act| {
        let mut s = b;
        let mut buf = [0u8; 1];
        for i in 0..n {
            act.call("read+write", i);
            match s.read(&mut buf) {
                Ok(1) if buf[0] == (i % 251) as u8 => {}
                other => {
                    e2.lock().unwrap().push(format!("pong: round {} read {:?} byte {}", i, other.map_err(|e| e.kind()), buf[0]));
                    break;
                }
            }
            if s.write_all(&[((i + 1) % 251) as u8]).is_err() {
                e2.lock().unwrap().push("write failed".into());
                break;
            }
            act.ret("read+write", i, 0);
        }
        g2.lock().unwrap().push(s);
    });
    x.desc = format!("unix-stream one-byte ping-pong, {} round trips, ping={} pong={}", n, if a_co { "co" } else { "th" }, if b_co { "co" } else { "th" });
    x.wait_all()?;
    grave.lock().unwrap().clear();
    if let Some(e) = errs.lock().unwrap().first() {
        return viol(format!("socket hand-off: {}", e));
    }
    Ok(())
}

/// timed reads in a tight request / answer loop (C18 "returns the data when it arrives in time"): the peer answers every
/// request at once, the reader starts its timed read a random few micro-seconds after its request, so that the answer
/// arrives at every distance from the read's first attempt, its registration and its re-check. A read may only report
/// TimedOut if the answer was written less than 150 ms before that (a starved peer); otherwise the wake-up was lost.
fn iotrace(x: &mut Exec) -> Res {
    use std::os::unix::io::{FromRawFd, IntoRawFd};
    let n = rounds(x, 12_000);
    let tcp = x.rng.chance(2, 3);
    let timeout_ms = 300u64;
    x.timeout_used(Duration::from_millis(timeout_ms));
    let errs = Arc::new(std::sync::Mutex::new(Vec::<String>::new()));
    let answered_at: Arc<Vec<AtomicU64>> = Arc::new((0..n).map(|_| AtomicU64::new(0)).collect());
    let t0 = std::time::Instant::now();
    let ping_co = x.rng.chance(5, 6);
    enum S {
        T(may::net::TcpStream),
        U(UnixStream),
    }
    impl S {
        fn rd(&mut self, b: &mut [u8]) -> std::io::Result<usize> {
            match self {
                S::T(s) => s.read(b),
                S::U(s) => s.read(b),
            }
        }
        fn wr(&mut self, b: &[u8]) -> std::io::Result<()> {
            match self {
                S::T(s) => s.write_all(b),
                S::U(s) => s.write_all(b),
            }
        }
    }
    let (a, b) = if tcp {
        let l = std::net::TcpListener::bind(lo0()).map_err(|e| Fail::Inconclusive(format!("bind: {}", e)))?;
        let c = std::net::TcpStream::connect(l.local_addr().unwrap()).map_err(|e| Fail::Inconclusive(format!("connect: {}", e)))?;
        let (s, _) = l.accept().map_err(|e| Fail::Inconclusive(format!("accept: {}", e)))?;
        c.set_nodelay(true).ok();
        s.set_nodelay(true).ok();
        let a = unsafe { may::net::TcpStream::from_raw_fd(c.into_raw_fd()) };
        a.set_read_timeout(Some(Duration::from_millis(timeout_ms))).unwrap();
        (S::T(a), S::T(unsafe { may::net::TcpStream::from_raw_fd(s.into_raw_fd()) }))
    } else {
        let (a, b) = UnixStream::pair().map_err(|e| Fail::Inconclusive(format!("pair: {}", e)))?;
        a.set_read_timeout(Some(Duration::from_millis(timeout_ms))).unwrap();
        (S::U(a), S::U(b))
    };
    let grave: Arc<std::sync::Mutex<Vec<S>>> = Default::default();
    let (e1, g1, at1) = (errs.clone(), grave.clone(), answered_at.clone());
    let mut r = x.rng.fork();
    x.spawn("ping", ping_co, move |act| {
        let mut s = a;
        let mut buf = [0u8; 1];
        'rounds: for i in 0..n {
            act.call("write+timed read", i);
            if s.wr(&[(i % 251) as u8]).is_err() {
                e1.lock().unwrap().push("write failed".into());
                break;
            }
            for _ in 0..r.below(1500) {
                std::hint::spin_loop();
            }
            loop {
                match s.rd(&mut buf) {
                    Ok(1) if buf[0] == ((i + 1) % 251) as u8 => break,
                    Err(e) if e.kind() == std::io::ErrorKind::TimedOut || e.kind() == std::io::ErrorKind::WouldBlock => {
                        let now = t0.elapsed().as_micros() as u64;
                        let ans = at1[i as usize].load(SeqCst);
                        if ans != 0 && now.saturating_sub(ans) >= 150_000 {
                            e1.lock().unwrap().push(format!("round {}: read with a {} ms time-out reported TimedOut although the answer had been written {} ms earlier (the bytes were in the socket all that time)", i, timeout_ms, now.saturating_sub(ans) / 1000));
                            break 'rounds;
                        }
                        // the peer has not answered yet (or only just): a machine that starves it says nothing about may
                    }
                    other => {
                        e1.lock().unwrap().push(format!("ping: round {} read {:?} byte {}", i, other.map_err(|e| e.kind()), buf[0]));
                        break 'rounds;
                    }
                }
            }
            act.ret("write+timed read", i, 0);
        }
        if e1.lock().unwrap().is_empty() {
            g1.lock().unwrap().push(s);
        } else {
            // let the peer see the end of the stream, it is blocked in its read
            drop(s);
        }
    });
    let (e2, g2) = (errs.clone(), grave.clone());
    let pong_co = x.rng.chance(1, 2);
    x.spawn("pong", pong_co, move |act| {
        let mut s = b;
        let mut buf = [0u8; 1];
        for i in 0..n {
            act.call("read+write", i);
            match s.rd(&mut buf) {
                Ok(1) if buf[0] == (i % 251) as u8 => {}
                Ok(0) => break, // the ping side gave up
                other => {
                    e2.lock().unwrap().push(format!("pong: round {} read {:?} byte {}", i, other.map_err(|e| e.kind()), buf[0]));
                    break;
                }
            }
            if s.wr(&[((i + 1) % 251) as u8]).is_err() {
                break;
            }
            answered_at[i as usize].store((t0.elapsed().as_micros() as u64).max(1), SeqCst);
            act.ret("read+write", i, 0);
        }
        g2.lock().unwrap().push(s);
    });
    x.desc = format!("{} one-byte request/answer loop with a {} ms read time-out on the requesting side, {} rounds, ping={} pong={}", if tcp { "tcp" } else { "unix-stream" }, timeout_ms, n, if ping_co { "co" } else { "th" }, if pong_co { "co" } else { "th" });
    let r = x.wait_all();
    // whoever is left waits for the other side: let the sockets go so that the leaked actors end
    if r.is_err() {
        return r;
    }
    grave.lock().unwrap().clear();
    if let Some(e) = errs.lock().unwrap().first() {
        return Err(Fail::Suspect(format!("timed read: {}", e)));
    }
    Ok(())
}
