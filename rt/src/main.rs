//! mayverif-rt: runs scenario executions against the real may runtime under stall plans and
//! checks them with the oracles in the scenario modules. One process = one runtime configuration
//! (workers, pool capacity); the Python driver (`/verif/check`) fans out shards and merges results.
//!
//! exit codes (private to the driver): 0 all executions held, 10 violation(s) recorded,
//! 11 process must stop after a hang (violation or inconclusive recorded; driver resumes the shard),
//! other = crash (attributed by the driver to the last `EXEC` line printed).

#[macro_use]
extern crate may;

mod hook;
mod scen_chan;
mod scen_core;
mod scen_cq;
mod scen_io;
mod scen_probe;
mod scen_race;
mod scen_sync;
mod util;

/// Address-reuse allocator (`--reuse-alloc`, plain lane only, off by default): blocks of exactly the size of a spmc run
/// queue block (32 coroutine slots + 3 words, 288 bytes) are recycled LIFO through one process-wide free list, so that
/// the block a stealer has just freed is the next one the owner allocates. The packed head word `(block, index)` of
/// the run queue then compares equal again after 32-64 pushes: the ABA that glibc's per-thread caches hardly ever
/// produce across threads (D34). Never under ASan (it would hide use-after-free from it).
mod reuse {
    use std::alloc::{GlobalAlloc, Layout, System};
    use std::sync::atomic::{AtomicBool, AtomicUsize, Ordering::*};
    pub static ENABLED: AtomicBool = AtomicBool::new(false);
    pub static REUSED: AtomicUsize = AtomicUsize::new(0);
    static LOCK: AtomicBool = AtomicBool::new(false);
    static mut HEAD: *mut u8 = std::ptr::null_mut();
    pub struct Reuse;
    fn ours(l: &Layout) -> bool {
        l.size() == 288 && l.align() <= 64
    }
    fn lock() {
        while LOCK.compare_exchange_weak(false, true, Acquire, Relaxed).is_err() {
            std::hint::spin_loop();
        }
    }
    unsafe impl GlobalAlloc for Reuse {
        unsafe fn alloc(&self, l: Layout) -> *mut u8 {
            if ENABLED.load(Relaxed) && ours(&l) {
                lock();
                let h = HEAD;
                if !h.is_null() {
                    HEAD = *(h as *mut *mut u8);
                    LOCK.store(false, Release);
                    REUSED.fetch_add(1, Relaxed);
                    return h;
                }
                LOCK.store(false, Release);
                return System.alloc(Layout::from_size_align_unchecked(l.size(), 64));
            }
            System.alloc(l)
        }
        unsafe fn dealloc(&self, p: *mut u8, l: Layout) {
            if ENABLED.load(Relaxed) && ours(&l) && (p as usize) % 64 == 0 {
                lock();
                *(p as *mut *mut u8) = HEAD;
                HEAD = p;
                LOCK.store(false, Release);
                return;
            }
            System.dealloc(p, l)
        }
    }
}
#[global_allocator]
static GLOBAL: reuse::Reuse = reuse::Reuse;

use hook::PlanEntry;
use std::collections::{BTreeMap, HashSet};
use std::io::Write;
use std::sync::atomic::Ordering::*;
use std::time::Instant;
use util::*;

pub struct ScenDef {
    pub name: &'static str,
    pub f: fn(&mut Exec) -> Res,
    /// single-stall plans also raise FIRE (the scenario's canceller / fault injector waits for it)
    pub fire: bool,
    /// sites where the stall is held until the scenario opens the GATE (role-directed windows)
    pub gate_sites: &'static [u32],
    /// pool capacity to configure (None = default)
    pub pool_cap: Option<usize>,
    /// only stall these sites (empty = every reached non-idle site)
    pub only_sites: &'static [u32],
}

fn registry() -> Vec<ScenDef> {
    let mut v = Vec::new();
    v.extend(scen_sync::defs());
    v.extend(scen_chan::defs());
    v.extend(scen_core::defs());
    v.extend(scen_cq::defs());
    v.extend(scen_io::defs());
    v.extend(scen_probe::defs());
    v.extend(scen_race::defs());
    v
}

struct Args {
    scen: String,
    workers: usize,
    seed: u64,
    nseeds: u64,
    k: usize,
    stall_us: u64,
    random: usize,
    out: String,
    skip_seed: u64,
    skip_plan: usize,
    thorough: bool,
    one: Option<String>,
    max_execs: usize,
    only_site: Vec<u32>,
    pin: bool,
    budget_s: f64,
    noise: u32,
    reps: usize,
    /// leave the hook uninstalled: the hook's own atomic operations act as fences between the
    /// instrumented steps and would hide store->load reorderings (stress scenarios use this)
    no_hook: bool,
}

fn parse_args() -> Args {
    let mut a = Args {
        scen: String::new(),
        workers: 2,
        seed: 1,
        nseeds: 4,
        k: 3,
        stall_us: 3000,
        random: 4,
        out: String::new(),
        skip_seed: 0,
        skip_plan: 0,
        thorough: false,
        one: None,
        max_execs: usize::MAX,
        only_site: vec![],
        pin: false,
        budget_s: 1e9,
        noise: 0,
        reps: 1,
        no_hook: false,
    };
    let v: Vec<String> = std::env::args().collect();
    let mut i = 1;
    while i < v.len() {
        let val = |i: usize| v.get(i + 1).cloned().unwrap_or_default();
        match v[i].as_str() {
            "--scen" => a.scen = val(i),
            "--workers" => a.workers = val(i).parse().unwrap(),
            "--seed" => a.seed = val(i).parse().unwrap(),
            "--nseeds" => a.nseeds = val(i).parse().unwrap(),
            "--k" => a.k = val(i).parse().unwrap(),
            "--stall-us" => a.stall_us = val(i).parse().unwrap(),
            "--random" => a.random = val(i).parse().unwrap(),
            "--out" => a.out = val(i),
            "--skip-seed" => a.skip_seed = val(i).parse().unwrap(),
            "--skip-plan" => a.skip_plan = val(i).parse().unwrap(),
            "--one" => a.one = Some(val(i)),
            "--max-execs" => a.max_execs = val(i).parse().unwrap(),
            "--pin" => a.pin = val(i) != "0",
            "--only-prefix" => {
                // directed amplification: plans only for hook sites whose name starts with one of the prefixes
                for pre in val(i).split(',') {
                    let mut any = false;
                    for (name, id) in may::queue::verif::site::NAMES.iter() {
                        if name.starts_with(pre) {
                            a.only_site.push(*id);
                            any = true;
                        }
                    }
                    if !any {
                        eprintln!("no site starts with {}", pre);
                        std::process::exit(2);
                    }
                }
            }
            "--only-site" => {
                // directed amplification: plans only for the named hook sites
                for n in val(i).split(',') {
                    match may::queue::verif::site::NAMES.iter().find(|(name, _)| *name == n) {
                        Some((_, id)) => a.only_site.push(*id),
                        None => {
                            eprintln!("unknown site {}", n);
                            std::process::exit(2);
                        }
                    }
                }
            }
            "--budget-s" => a.budget_s = val(i).parse().unwrap(),
            "--noise" => a.noise = val(i).parse().unwrap(),
            "--reps" => a.reps = val(i).parse().unwrap(),
            "--thorough" => {
                a.thorough = true;
                i += 1;
                continue;
            }
            "--no-hook" => {
                a.no_hook = true;
                i += 1;
                continue;
            }
            "--reuse-alloc" => {
                reuse::ENABLED.store(true, SeqCst);
                i += 1;
                continue;
            }
            "--list" => {
                for d in registry() {
                    println!("{}", d.name);
                }
                std::process::exit(0);
            }
            "--sites" => {
                for (n, i) in may::queue::verif::site::NAMES {
                    println!("{} {}", i, n);
                }
                std::process::exit(0);
            }
            x => {
                eprintln!("unknown arg {}", x);
                std::process::exit(2);
            }
        }
        i += 2;
    }
    a
}

fn plan_str(p: &[PlanEntry], names: &[&'static str]) -> String {
    if p.is_empty() {
        return "none".into();
    }
    p.iter()
        .map(|e| format!("{}#{}:{}us{}{}", names[e.site as usize], e.k, e.us, if e.flags & hook::F_FIRE != 0 { "+fire" } else { "" }, if e.flags & hook::F_GATE != 0 { "+gate" } else { "" }))
        .collect::<Vec<_>>()
        .join(" ")
}

/// replay format: `site:k:us:flags,site:k:us:flags`
fn plan_encode(p: &[PlanEntry]) -> String {
    p.iter().map(|e| format!("{}:{}:{}:{}", e.site, e.k, e.us, e.flags)).collect::<Vec<_>>().join(",")
}
fn plan_decode(s: &str) -> Vec<PlanEntry> {
    if s.is_empty() || s == "none" {
        return vec![];
    }
    s.split(',')
        .map(|t| {
            let f: Vec<u64> = t.split(':').map(|x| x.parse().unwrap()).collect();
            PlanEntry { site: f[0] as u32, k: f[1] as usize, us: f[2], flags: f[3] as u32 }
        })
        .collect()
}

/// the last few panic messages (all threads); lets a failing execution name e.g. a worker thread that died
static RECENT: std::sync::Mutex<Vec<String>> = std::sync::Mutex::new(Vec::new());

struct Outcome {
    panics: Vec<String>,
    res: Res,
    trace: hook::ExecTrace,
    events: usize,
    desc: String,
    elapsed_us: u64,
    rendered: Vec<String>,
}

/// run one execution; a wall-clock `Suspect` verdict is confirmed by three immediate re-runs of the same instance
fn run_one(def: &ScenDef, seed: u64, plan: &[PlanEntry], a: &Args) -> Outcome {
    let mut o = run_once(def, seed, plan, a);
    if let Err(Fail::Suspect(msg)) = &o.res {
        let msg = msg.clone();
        let mut again = 0;
        for _ in 0..3 {
            let o2 = run_once(def, seed, plan, a);
            match o2.res {
                Err(Fail::Suspect(_)) => again += 1,
                _ => break,
            }
        }
        o.res = if again == 3 {
            Err(Fail::Violation(format!("{} - and again in each of 3 immediate re-runs of the same instance", msg)))
        } else {
            Err(Fail::Inconclusive(format!("one-off lateness, not reproduced ({} of 3 re-runs were late too): {}", again, msg)))
        };
    }
    o
}

fn run_once(def: &ScenDef, seed: u64, plan: &[PlanEntry], a: &Args) -> Outcome {
    hook::ARMED_CLAMP_US.store(u64::MAX, SeqCst);
    let mut x = Exec::new(seed, a.workers, a.thorough, !plan.is_empty() || a.noise != 0);
    hook::begin_exec(plan, a.noise);
    RECENT.lock().unwrap_or_else(|e| e.into_inner()).clear();
    let t0 = Instant::now();
    let res = (def.f)(&mut x);
    let elapsed_us = t0.elapsed().as_micros() as u64;
    let trace = hook::end_exec();
    let events = x.log.len();
    let mut res = res;
    if res.is_ok() {
        res = x.finish();
    }
    if res.is_ok() {
        if hook::RESIDENCY_VIOLATIONS.load(SeqCst) != 0 {
            let w = hook::RESIDENCY_WITNESS.lock().unwrap().clone().unwrap_or_default();
            res = Err(Fail::Violation(format!("residency monitor: {}", w)));
        }
    }
    if res.is_ok() && hook::OWNER_VIOLATIONS.swap(0, SeqCst) != 0 {
        let w = hook::OWNER_WITNESS.lock().unwrap().take().unwrap_or_default();
        res = Err(Fail::Violation(format!("run-queue owner monitor: {}", w)));
    }
    if res.is_ok() && hook::UNLINK_VIOLATIONS.swap(0, SeqCst) != 0 {
        let w = hook::UNLINK_WITNESS.lock().unwrap().take().unwrap_or_default();
        res = Err(Fail::Violation(format!("timer-list contract monitor: {} - Entry::remove is a consumer-side operation of the list (concurrent with the selector's pop_if it corrupts the links: 'assertion failed: (*tail).value.is_none()', a dead selector thread, every socket of that selector stranded)", w)));
    }
    let rendered = if res.is_err() { render_events(&x.log.snapshot(), &x.names(), 60) } else { render_events(&x.log.snapshot(), &x.names(), 12) };
    // on failure the Exec (and its possibly stuck actors) is leaked on purpose
    let desc = x.desc.clone();
    if res.is_err() {
        std::mem::forget(x);
    }
    let panics = RECENT.lock().unwrap_or_else(|e| e.into_inner()).iter().filter(|l| !(l.starts_with('P') || l.starts_with("ARM") || l.starts_with("OWNER") || l.starts_with("CHILD") || l.starts_with("pred") || l.starts_with("probe") || l.starts_with("<non-string"))).cloned().collect();
    Outcome { panics, res, trace, events, desc, elapsed_us, rendered }
}

struct Stats {
    execs: usize,
    planned: usize,
    stalls_hit: usize,
    events: usize,
    sigs: HashSet<u64>,
    nontrivial: HashSet<u64>,
    violations: Vec<String>, // JSON objects
    inconclusive: usize,
    samples: Vec<String>,
    wall: Instant,
}

fn main() {
    let a = parse_args();
    if std::env::var_os("VERIF_PANIC_MSGS").is_none() {
        // scenario panics (fault injection) are expected by the hundreds: keep stderr readable, but
        // remember the last few so that a fatal (non-unwinding) panic can be explained
        std::panic::set_hook(Box::new(|info| {
            let msg = info.payload().downcast_ref::<&str>().map(|s| s.to_string()).or_else(|| info.payload().downcast_ref::<String>().cloned()).unwrap_or_else(|| "<non-string payload>".into());
            let line = format!("{} at {}", msg, info.location().map(|l| l.to_string()).unwrap_or_default());
            let mut r = RECENT.lock().unwrap_or_else(|e| e.into_inner());
            if r.len() >= 6 {
                r.remove(0);
            }
            r.push(line);
            if msg.contains("panic in a destructor during cleanup") || msg.contains("cannot unwind") || msg.contains("failed to initiate panic") {
                eprintln!("FATAL non-unwinding panic; recent panics (oldest first):");
                for l in r.iter() {
                    eprintln!("  {}", l);
                }
                eprintln!("{}", std::backtrace::Backtrace::force_capture());
            }
        }));
    }
    let reg = registry();
    let def = match reg.iter().find(|d| d.name == a.scen) {
        Some(d) => d,
        None => {
            eprintln!("unknown scenario {:?}", a.scen);
            std::process::exit(2);
        }
    };
    may::config().set_workers(a.workers);
    // may pins worker i to core i by default: with 16 shards side by side every runtime would sit on cores 0..3. Unpinned
    // unless asked for (the driver pins every third shard: contention for a few cores is a perturbation worth having)
    may::config().set_worker_pin(a.pin);
    // harness actors format strings, log events and unwind (cancel / panic faults) on coroutine stacks:
    // the default 32 KiB is too tight for that (a stack overflow ends the process with exit(1))
    may::config().set_stack_size(0x10000);
    if let Some(c) = def.pool_cap {
        may::config().set_pool_capacity(c);
    }
    if !a.no_hook {
        hook::install();
    }
    let names = hook::site_names();
    let mut st = Stats { execs: 0, planned: 0, stalls_hit: 0, events: 0, sigs: HashSet::new(), nontrivial: HashSet::new(), violations: vec![], inconclusive: 0, samples: vec![], wall: Instant::now() };
    let mut stop_code = 0;

    let handle = |st: &mut Stats, o: Outcome, seed_i: u64, sseed: u64, plan_j: usize, plan: &[PlanEntry]| -> i32 {
        st.execs += 1;
        st.events += o.events;
        let (sig, switches) = o.trace.signature();
        let hit = o.trace.plan_hit.iter().any(|&b| b);
        if hit {
            st.stalls_hit += 1;
        }
        st.sigs.insert(sig);
        if hit || switches >= 2 {
            st.nontrivial.insert(sig);
        }
        if st.samples.len() < 3 && (plan_j % 17 == 1 || plan_j == 0) {
            st.samples.push(format!(
                "{{\"scenario\":{},\"seed_index\":{},\"plan\":{},\"instance\":{},\"events\":{},\"hook_trace_len\":{},\"thread_switches\":{},\"elapsed_us\":{},\"last_events\":{}}}",
                jstr(def.name),
                seed_i,
                jstr(&plan_str(plan, &names)),
                jstr(&o.desc),
                o.events,
                o.trace.ev.len(),
                switches,
                o.elapsed_us,
                jarr(&o.rendered)
            ));
        }
        match &o.res {
            Ok(()) => 0,
            Err(f) => {
                let class = if o.trace.timer_fired_before_publish() {
                    "timer_fired_before_publish"
                } else if o.trace.io_timer_fired_before_publish() {
                    "io_timer_fired_before_publish"
                } else {
                    ""
                };
                let rec = format!(
                    "{{\"kind\":{},\"msg\":{},\"scenario\":{},\"workers\":{},\"seed\":{},\"seed_index\":{},\"scenario_seed\":{},\"plan_index\":{},\"plan\":{},\"plan_enc\":{},\"plan_hit\":{},\"class\":{},\"instance\":{},\"unexpected_panics\":{},\"events\":{},\"hook_trace\":{}}}",
                    jstr(f.kind()),
                    jstr(f.msg()),
                    jstr(def.name),
                    a.workers,
                    a.seed,
                    seed_i,
                    sseed,
                    plan_j,
                    jstr(&plan_str(plan, &names)),
                    jstr(&plan_encode(plan)),
                    hit,
                    jstr(class),
                    jstr(&o.desc),
                    jarr(&o.panics),
                    jarr(&o.rendered),
                    jarr(&o.trace.render(80))
                );
                println!("FAIL {} {}", f.kind(), f.msg());
                match f {
                    Fail::Inconclusive(_) => {
                        st.inconclusive += 1;
                        st.violations.push(rec);
                        11
                    }
                    Fail::Violation(_) => {
                        st.violations.push(rec);
                        // actors are all done after an oracle violation only if wait_all passed;
                        // be conservative and restart the process
                        11
                    }
                    _ => {
                        st.violations.push(rec);
                        11
                    }
                }
            }
        }
    };

    let budget = std::time::Duration::from_secs_f64(a.budget_s);
    if let Some(one) = &a.one {
        // --one <scenario_seed>/<plan_enc>  : replay a single execution `reps` times
        let (s, p) = one.split_once('/').unwrap_or((one.as_str(), ""));
        let sseed: u64 = s.parse().unwrap();
        let plan = plan_decode(p);
        for r in 0..a.reps {
            println!("EXEC {} replay rep={} seed={} plan={}", def.name, r, sseed, plan_str(&plan, &names));
            std::io::stdout().flush().ok();
            let o = run_one(def, sseed, &plan, &a);
            let c = handle(&mut st, o, 0, sseed, 0, &plan);
            if c != 0 {
                stop_code = c;
                break;
            }
        }
    } else {
        'outer: for seed_i in a.skip_seed..a.nseeds {
            if st.execs >= a.max_execs || st.wall.elapsed() > budget {
                break 'outer;
            }
            let sseed = Rng::new(a.seed ^ (seed_i.wrapping_mul(0x2545F4914F6CDD1D)) ^ ((a.workers as u64) << 56)).next() >> 1;
            // plan 0: dry run
            let mut plans: Vec<Vec<PlanEntry>> = vec![vec![]];
            let first = if seed_i == a.skip_seed { a.skip_plan } else { 0 };
            // dry run is always executed (also when resuming) to learn the reachable sites
            println!("EXEC {} seed_index={} plan_index=0 sseed={} enc= plan=none", def.name, seed_i, sseed);
            std::io::stdout().flush().ok();
            let o = run_one(def, sseed, &[], &a);
            let hits = o.trace.hits.clone();
            let c = handle(&mut st, o, seed_i, sseed, 0, &[]);
            if c != 0 {
                stop_code = c;
                println!("STOP seed_index={} plan_index=0", seed_i);
                break 'outer;
            }
            let mut reached: Vec<u32> = Vec::new();
            for (s, &h) in hits.iter().enumerate() {
                let s = s as u32;
                if h == 0 || hook::is_unplannable_site(s) {
                    continue;
                }
                if !def.only_sites.is_empty() && !def.only_sites.contains(&s) {
                    continue;
                }
                if !a.only_site.is_empty() && !a.only_site.contains(&s) {
                    continue;
                }
                reached.push(s);
                // the first K hits, plus up to K hits sampled from the rest of the execution: windows
                // of hit-rich sites (yield, poll loop, queue steps) late in a scenario are reached too
                let mut ks: Vec<usize> = (1..=h.min(a.k)).collect();
                if h > a.k && a.k > 0 {
                    let mut kr = Rng::new(sseed ^ ((s as u64) << 20) ^ 0x5EED);
                    for _ in 0..a.k {
                        let k = a.k + 1 + kr.below((h - a.k) as u64) as usize;
                        if !ks.contains(&k) {
                            ks.push(k);
                        }
                    }
                }
                for k in ks {
                    let mut flags = 0;
                    let mut us = a.stall_us;
                    if def.fire {
                        flags |= hook::F_FIRE;
                    }
                    if def.gate_sites.contains(&s) {
                        flags |= hook::F_FIRE | hook::F_GATE;
                        us = 40_000;
                    }
                    plans.push(vec![PlanEntry { site: s, k, us, flags }]);
                }
            }
            // random multi-stall plans
            let mut r = Rng::new(sseed ^ 0xABCDEF);
            for _ in 0..a.random {
                if reached.is_empty() {
                    break;
                }
                // directed shards only: every fourth random plan holds *every* hit of one anchored window briefly and every
                // hit of another one long (two parties of the same primitive each delayed inside its own window, whenever
                // they get there: "A is still between its two steps when B has gone through both of its own")
                if !a.only_site.is_empty() && reached.len() >= 2 && r.chance(1, 4) {
                    let s1 = *r.pick(&reached);
                    let mut s2 = *r.pick(&reached);
                    if s2 == s1 {
                        s2 = reached[(reached.iter().position(|&v| v == s1).unwrap() + 1) % reached.len()];
                    }
                    let short = *r.pick(&[200u64, 700]);
                    plans.push(vec![
                        PlanEntry { site: s1, k: 0, us: short, flags: 0 },
                        PlanEntry { site: s2, k: 0, us: 3000, flags: if def.fire { hook::F_FIRE } else { 0 } },
                    ]);
                    continue;
                }
                // every third random plan is an "overtake": two consecutive hits of one site, the earlier one held long, the
                // later one briefly, so that the party that arrived second leaves the window first
                if r.chance(1, 3) {
                    let cands: Vec<u32> = reached.iter().copied().filter(|&s| hits[s as usize] >= 2).collect();
                    if !cands.is_empty() {
                        let s = *r.pick(&cands);
                        let k = r.range(1, (hits[s as usize] - 1).min(a.k.max(4)) as u64) as usize;
                        let short = *r.pick(&[50u64, 200, 700]);
                        plans.push(vec![
                            PlanEntry { site: s, k, us: 3000, flags: if def.fire { hook::F_FIRE } else { 0 } },
                            PlanEntry { site: s, k: k + 1, us: short, flags: 0 },
                        ]);
                        continue;
                    }
                }
                let n = r.range(2, 4) as usize;
                let mut p = Vec::new();
                for _ in 0..n {
                    let s = *r.pick(&reached);
                    let k = r.range(1, hits[s as usize].min(a.k.max(4)) as u64) as usize;
                    let us = *r.pick(&[50u64, 200, 700, 1500, 3000, 6000]);
                    p.push(PlanEntry { site: s, k, us, flags: if def.fire && p.is_empty() { hook::F_FIRE } else { 0 } });
                }
                plans.push(p);
            }
            st.planned += plans.len() - 1;
            for (j, plan) in plans.iter().enumerate().skip(1) {
                if j < first {
                    continue;
                }
                if st.execs >= a.max_execs || st.wall.elapsed() > budget {
                    break 'outer;
                }
                println!("EXEC {} seed_index={} plan_index={} sseed={} enc={} plan={}", def.name, seed_i, j, sseed, plan_encode(plan), plan_str(plan, &names));
                std::io::stdout().flush().ok();
                let o = run_one(def, sseed, plan, &a);
                let c = handle(&mut st, o, seed_i, sseed, j, plan);
                if c != 0 {
                    stop_code = c;
                    println!("STOP seed_index={} plan_index={}", seed_i, j);
                    break 'outer;
                }
            }
        }
    }

    // ---- shard result
    let mut hits = BTreeMap::new();
    let mut stalled = BTreeMap::new();
    for (i, n) in names.iter().enumerate() {
        let h = hook::TOTAL_HITS[i].load(Relaxed);
        if h > 0 {
            hits.insert(*n, h);
        }
        let s = hook::STALLED_AT[i].load(Relaxed);
        if s > 0 {
            stalled.insert(*n, s);
        }
    }
    let mut sigs: Vec<u64> = st.sigs.iter().cloned().collect();
    sigs.sort();
    let mut nt: Vec<u64> = st.nontrivial.iter().cloned().collect();
    nt.sort();
    let json = format!(
        "{{\"scenario\":{},\"workers\":{},\"seed\":{},\"execs\":{},\"planned\":{},\"stalls_hit\":{},\"clamped\":{},\"events\":{},\"sigs\":[{}],\"nontrivial_sigs\":[{}],\"hits\":{{{}}},\"stalled\":{{{}}},\"violations\":[{}],\"inconclusive\":{},\"samples\":[{}],\"residency_checks\":{},\"timer_unlink_checks\":{},\"run_queue_owner_checks\":{},\"reused_blocks\":{},\"stop_code\":{},\"wall_s\":{:.3}}}",
        jstr(def.name),
        a.workers,
        a.seed,
        st.execs,
        st.planned,
        st.stalls_hit,
        hook::CLAMPED.load(Relaxed),
        st.events,
        sigs.iter().map(|s| format!("\"{:x}\"", s)).collect::<Vec<_>>().join(","),
        nt.iter().map(|s| format!("\"{:x}\"", s)).collect::<Vec<_>>().join(","),
        hits.iter().map(|(k, v)| format!("{}:{}", jstr(k), v)).collect::<Vec<_>>().join(","),
        stalled.iter().map(|(k, v)| format!("{}:{}", jstr(k), v)).collect::<Vec<_>>().join(","),
        st.violations.join(","),
        st.inconclusive,
        st.samples.join(","),
        hook::RESIDENCY_CHECKS.load(Relaxed),
        hook::UNLINK_CHECKS.load(Relaxed),
        hook::OWNER_CHECKS.load(Relaxed),
        reuse::REUSED.load(Relaxed),
        stop_code,
        st.wall.elapsed().as_secs_f64()
    );
    if a.out.is_empty() {
        println!("{}", json);
    } else {
        std::fs::write(&a.out, json).expect("write shard result");
    }
    println!("DONE execs={} planned={} stalls_hit={} violations={} code={} reused_blocks={}", st.execs, st.planned, st.stalls_hit, st.violations.len(), stop_code, reuse::REUSED.load(SeqCst));
    std::io::stdout().flush().ok();
    // stuck actors may keep the process alive: leave hard
    unsafe { libc::_exit(if stop_code != 0 { stop_code } else { 0 }) };
}
