//! mayverif-q: records histories of the may_queue data structures on plain OS threads (unique
//! values, logical call/return stamps from one SeqCst counter) and checks them offline:
//!   mpsc / spsc  -> queue anomalies fresh / repeat / order / empty, len bounds, drop-once   (C03)
//!   spmc         -> exactly one taker, owner order, contiguous increasing batches, termination (C04)
//!   list         -> timer entry list: consumed exactly once, order, is_head bounds            (C19)
//!   listseq      -> sequential random ops against a reference model                           (C19)
//!   selftest     -> every checker must flag hand-made bad histories and pass a locked VecDeque
//! Runs natively, under ASan / TSan, and under Miri (`--miri`: small sizes, yields instead of sleeps).
//! Output: one line `RESULT {json}`; exit 0 held, 10 violation (witness printed), 2 harness error.

use may_queue::{mpsc, mpsc_list_v1 as list, spmc, spsc};
use std::cell::Cell;
use std::collections::{HashMap, HashSet, VecDeque};
use std::sync::atomic::{AtomicBool, AtomicU32, AtomicU64, AtomicUsize, Ordering::*};
use std::sync::{Arc, Barrier, Mutex};
use std::time::Duration;

// ------------------------------------------------------------------ PRNG
#[derive(Clone)]
struct Rng(u64);
impl Rng {
    fn new(seed: u64) -> Rng {
        Rng(seed.wrapping_mul(0x9E3779B97F4A7C15) ^ 0xD1B54A32D192ED03)
    }
    fn next(&mut self) -> u64 {
        self.0 = self.0.wrapping_add(0x9E3779B97F4A7C15);
        let mut z = self.0;
        z = (z ^ (z >> 30)).wrapping_mul(0xBF58476D1CE4E5B9);
        z = (z ^ (z >> 27)).wrapping_mul(0x94D049BB133111EB);
        z ^ (z >> 31)
    }
    fn below(&mut self, n: u64) -> u64 {
        if n == 0 {
            0
        } else {
            self.next() % n
        }
    }
    fn chance(&mut self, a: u64, b: u64) -> bool {
        self.below(b) < a
    }
}

// ------------------------------------------------------------------ hook: role-directed stalls
/// Address-reuse allocator (`--reuse-alloc`, native lane only): blocks of 32..8192 bytes are recycled LIFO through
/// one process-wide free list per exact (size, align), so that a queue block that was just freed by one thread is the
/// next one allocated by another. ABA windows (a packed `(block pointer, index)` word that compares equal after the
/// block went away and came back) need exactly that and hardly ever get it from glibc's per-thread caches. Off by
/// default, never used under ASan/Miri (it would hide use-after-free from them).
mod reuse {
    use std::alloc::{GlobalAlloc, Layout, System};
    use std::sync::atomic::{AtomicBool, AtomicUsize, Ordering::*};
    pub static ENABLED: AtomicBool = AtomicBool::new(false);
    pub static REUSED: AtomicUsize = AtomicUsize::new(0);
    const BUCKETS: usize = 1024; // size / 8
    static LOCK: AtomicBool = AtomicBool::new(false);
    static mut HEADS: [*mut u8; BUCKETS] = [std::ptr::null_mut(); BUCKETS];
    pub struct Reuse;
    fn bucket(l: &Layout) -> Option<usize> {
        if l.size() >= 32 && l.size() < 8192 && l.size() % 8 == 0 && l.align() <= 64 {
            Some(l.size() / 8)
        } else {
            None
        }
    }
    fn lock() {
        while LOCK.compare_exchange_weak(false, true, Acquire, Relaxed).is_err() {
            std::hint::spin_loop();
        }
    }
    unsafe impl GlobalAlloc for Reuse {
        unsafe fn alloc(&self, l: Layout) -> *mut u8 {
            if ENABLED.load(Relaxed) {
                if let Some(b) = bucket(&l) {
                    lock();
                    let h = HEADS[b];
                    if !h.is_null() {
                        HEADS[b] = *(h as *mut *mut u8);
                        LOCK.store(false, Release);
                        REUSED.fetch_add(1, Relaxed);
                        return h;
                    }
                    LOCK.store(false, Release);
                    // every block of such a size is 64-aligned so that it can serve any request of the bucket
                    return System.alloc(Layout::from_size_align_unchecked(l.size(), 64));
                }
            }
            System.alloc(l)
        }
        unsafe fn dealloc(&self, p: *mut u8, l: Layout) {
            // (a block that came from the system allocator before the switch was thrown is only taken if it happens
            // to have the alignment every block of this list promises)
            if ENABLED.load(Relaxed) && (p as usize) % 64 == 0 {
                if let Some(b) = bucket(&l) {
                    lock();
                    *(p as *mut *mut u8) = HEADS[b];
                    HEADS[b] = p;
                    LOCK.store(false, Release);
                    return;
                }
            }
            System.dealloc(p, l)
        }
    }
}
#[cfg(not(miri))]
#[global_allocator]
static GLOBAL: reuse::Reuse = reuse::Reuse;

static MIRI: AtomicBool = AtomicBool::new(false);
static PLAN_SITE: AtomicU32 = AtomicU32::new(0);
static PLAN_ROLE: AtomicU32 = AtomicU32::new(0);
static PLAN_K: AtomicU32 = AtomicU32::new(0);
static PLAN_US: AtomicU64 = AtomicU64::new(0);
static STALLS_HIT: AtomicUsize = AtomicUsize::new(0);
static SITE_HITS: [AtomicUsize; 64] = [const { AtomicUsize::new(0) }; 64];
static SITE_STALLED: [AtomicUsize; 64] = [const { AtomicUsize::new(0) }; 64];
thread_local! {
    static ROLE: Cell<u32> = const { Cell::new(u32::MAX) };
    static MY_HITS: Cell<[u32; 64]> = const { Cell::new([0; 64]) };
}
fn set_role(r: u32) {
    ROLE.with(|c| c.set(r));
    MY_HITS.with(|c| c.set([0; 64]));
}
#[cfg(may_verif)]
fn hook(site: u32, _obj: usize) {
    let s = site as usize;
    if s >= 64 {
        return;
    }
    SITE_HITS[s].fetch_add(1, Relaxed);
    let role = ROLE.with(|c| c.get());
    if role == u32::MAX {
        return;
    }
    let n = MY_HITS.with(|c| {
        let mut a = c.get();
        a[s] += 1;
        c.set(a);
        a[s]
    });
    if PLAN_SITE.load(Relaxed) == site && PLAN_ROLE.load(Relaxed) == role && PLAN_K.load(Relaxed) == u32::MAX && !MIRI.load(Relaxed) {
        // every-hit mode: this role holds still for a few micro-seconds at *each* hit of the site (a busy wait, a sleep
        // cannot be that short): every operation becomes a trial for windows that need the rest of the structure to move
        // on by a whole block in between (ABA on a packed pointer)
        if n == 1 {
            STALLS_HIT.fetch_add(1, Relaxed);
        }
        SITE_STALLED[s].fetch_add(1, Relaxed);
        let t0 = std::time::Instant::now();
        let us = PLAN_US.load(Relaxed) as u128;
        while t0.elapsed().as_micros() < us {
            std::hint::spin_loop();
        }
        return;
    }
    if PLAN_SITE.load(Relaxed) == site && PLAN_ROLE.load(Relaxed) == role && PLAN_K.load(Relaxed) == n {
        STALLS_HIT.fetch_add(1, Relaxed);
        SITE_STALLED[s].fetch_add(1, Relaxed);
        if MIRI.load(Relaxed) {
            for _ in 0..(PLAN_US.load(Relaxed) / 20).max(5) {
                std::thread::yield_now();
            }
        } else {
            std::thread::sleep(Duration::from_micros(PLAN_US.load(Relaxed)));
        }
    }
}
fn install_hook() {
    #[cfg(may_verif)]
    may_queue::verif::set_hook(hook);
}
fn set_plan(site: u32, role: u32, k: u32, us: u64) {
    PLAN_SITE.store(0, SeqCst);
    PLAN_ROLE.store(role, SeqCst);
    PLAN_K.store(k, SeqCst);
    PLAN_US.store(us, SeqCst);
    PLAN_SITE.store(site, SeqCst);
}

// ------------------------------------------------------------------ history
static CLOCK: AtomicU64 = AtomicU64::new(1);
fn stamp() -> u64 {
    CLOCK.fetch_add(1, SeqCst)
}

#[derive(Clone, Debug)]
enum OpK {
    Push(u64),
    /// one or more values obtained by one call (pop = 0/1 values, bulk_pop = 0..n); `bulk` marks bulk_pop
    Pop(Vec<u64>, bool),
    Len(usize),
    Peek(Option<u64>),
    /// list only
    PushL(u64, bool),
    Remove(u64, bool),
    PopIf(Option<u64>, bool),
}
#[derive(Clone, Debug)]
struct Op {
    thread: u32,
    k: OpK,
    c: u64,
    r: u64,
}

// payload with a drop counter (unique value ids)
struct Tracked {
    v: u64,
    reg: Arc<Vec<AtomicU32>>,
    canary: Box<u64>,
}
impl Tracked {
    fn new(v: u64, reg: &Arc<Vec<AtomicU32>>) -> Tracked {
        Tracked { v, reg: reg.clone(), canary: Box::new(v ^ 0x5555) }
    }
    fn value(&self) -> u64 {
        // reading through the box makes use of an uninitialised / freed slot visible to Miri and ASan
        if *self.canary != self.v ^ 0x5555 {
            u64::MAX
        } else {
            self.v
        }
    }
}
impl Drop for Tracked {
    fn drop(&mut self) {
        if (self.v as usize) < self.reg.len() {
            self.reg[self.v as usize].fetch_add(1, SeqCst);
        }
    }
}

type V = Result<(), String>;
fn viol<T>(s: String) -> Result<T, String> {
    Err(s)
}

// ------------------------------------------------------------------ FIFO queue checker (C03)
/// `ops`: complete history; the consumer is the single thread that issued Pop/Peek/Len ops
/// (`consumer`); producers only push. `npushed` values 0..n were pushed (unique).
fn check_fifo(ops: &[Op], consumer: u32, producer_of: &dyn Fn(u64) -> u32) -> V {
    let mut push: HashMap<u64, (u64, u64)> = HashMap::new();
    for o in ops {
        if let OpK::Push(v) = o.k {
            if push.insert(v, (o.c, o.r)).is_some() {
                return viol(format!("harness: value {} pushed twice", v));
            }
        }
    }
    // consumer ops in program order (they are sequential: sort by call stamp)
    let mut cons: Vec<&Op> = ops.iter().filter(|o| o.thread == consumer && !matches!(o.k, OpK::Push(_))).collect();
    cons.sort_by_key(|o| o.c);
    let mut pop_index: HashMap<u64, usize> = HashMap::new(); // value -> position in pop order
    let mut pop_ret: HashMap<u64, u64> = HashMap::new();
    let mut order: Vec<u64> = Vec::new();
    for o in &cons {
        if let OpK::Pop(vs, _) = &o.k {
            for &v in vs {
                let p = match push.get(&v) {
                    Some(p) => p,
                    None => return viol(format!("fresh: pop at [#{},#{}] returned {} which was never pushed (uninitialised or foreign slot)", o.c, o.r, v)),
                };
                if p.0 > o.r {
                    return viol(format!("fresh: value {} returned by a pop that ended (#{}) before its push began (#{})", v, o.r, p.0));
                }
                if pop_index.insert(v, order.len()).is_some() {
                    return viol(format!("repeat: value {} popped twice (second time at [#{},#{}])", v, o.c, o.r));
                }
                pop_ret.insert(v, o.r);
                order.push(v);
            }
        }
    }
    // order: a before b in pop order although push(b) returned before push(a) was called
    let mut suffix_min_ret = u64::MAX;
    let mut suffix_who = 0;
    for i in (0..order.len()).rev() {
        let a = order[i];
        let (ac, ar) = push[&a];
        if suffix_min_ret < ac {
            return viol(format!("order: value {} was popped before value {}, but push({}) had returned (#{}) before push({}) was called (#{})", a, suffix_who, suffix_who, suffix_min_ret, a, ac));
        }
        if ar < suffix_min_ret {
            suffix_min_ret = ar;
            suffix_who = a;
        }
    }
    // per-producer order
    let mut last: HashMap<u32, u64> = HashMap::new();
    for &v in &order {
        let p = producer_of(v);
        if let Some(&l) = last.get(&p) {
            if v < l {
                return viol(format!("order: producer {} pushed {} before {} but they were popped in the opposite order", p, v, l));
            }
        }
        last.insert(p, v);
    }
    // empty: pop -> None although some value was completely pushed before the call and is
    // popped only later (or never)
    let mut by_ret: Vec<(u64, u64)> = push.iter().map(|(&v, &(_, r))| (r, v)).collect();
    by_ret.sort();
    // prefix max of pop position over values sorted by push-return
    let pos = |v: u64| pop_index.get(&v).copied().unwrap_or(usize::MAX);
    let mut prefix: Vec<(u64, usize, u64)> = Vec::with_capacity(by_ret.len()); // (push_ret, max pos so far, witness)
    let mut best = (0usize, 0u64);
    let mut have = false;
    for &(r, v) in &by_ret {
        let p = pos(v);
        if !have || p > best.0 {
            best = (p, v);
            have = true;
        }
        prefix.push((r, best.0, best.1));
    }
    let mut popped_before = 0usize; // number of values popped by earlier consumer ops
    for o in &cons {
        match &o.k {
            OpK::Pop(vs, bulk) => {
                if vs.is_empty() {
                    // values with push_ret < o.c
                    let n = prefix.partition_point(|x| x.0 < o.c);
                    if n > 0 {
                        let (_, maxpos, w) = prefix[n - 1];
                        if maxpos >= popped_before {
                            return viol(format!(
                                "empty: {} at [#{},#{}] returned nothing although push({}) had returned at #{} and {} was not taken before (popped as #{} in pop order, {} taken so far)",
                                if *bulk { "bulk_pop" } else { "pop" },
                                o.c,
                                o.r,
                                w,
                                push[&w].1,
                                w,
                                if maxpos == usize::MAX { "never".to_string() } else { maxpos.to_string() },
                                popped_before
                            ));
                        }
                    }
                }
                popped_before += vs.len();
            }
            OpK::Len(n) => {
                let lo_push = prefix.partition_point(|x| x.0 < o.c);
                let hi_push = push.values().filter(|p| p.0 < o.r).count();
                let lo = lo_push.saturating_sub(popped_before);
                let hi = hi_push.saturating_sub(popped_before);
                if *n < lo || *n > hi {
                    return viol(format!("len: len() at [#{},#{}] returned {} but {} values were completely pushed and at most {} begun, {} popped", o.c, o.r, n, lo_push, hi_push, popped_before));
                }
            }
            OpK::Peek(pv) => match pv {
                Some(v) => {
                    if order.get(popped_before) != Some(v) && pop_index.contains_key(v) {
                        return viol(format!("peek: peek() at [#{},#{}] showed {} but the next value popped is {:?}", o.c, o.r, v, order.get(popped_before)));
                    }
                    if !push.contains_key(v) {
                        return viol(format!("fresh: peek() showed {} which was never pushed", v));
                    }
                }
                None => {
                    let n = prefix.partition_point(|x| x.0 < o.c);
                    if n > 0 && prefix[n - 1].1 >= popped_before {
                        return viol(format!("empty: peek() at [#{},#{}] returned None although push({}) had returned before", o.c, o.r, prefix[n - 1].2));
                    }
                }
            },
            _ => {}
        }
    }
    Ok(())
}

struct ExecOut {
    ops: Vec<Op>,
    overlap: bool,
    sig: u64,
    desc: String,
}

fn history_sig(ops: &[Op]) -> (u64, bool) {
    // signature: order of (thread, kind) by call stamp; overlap: some op of another thread was called inside an op's interval
    let mut v: Vec<&Op> = ops.iter().collect();
    v.sort_by_key(|o| o.c);
    let mut h: u64 = 0xcbf29ce484222325;
    let mut overlap = false;
    let mut max_r: HashMap<u32, u64> = HashMap::new();
    for o in &v {
        for (&t, &r) in max_r.iter() {
            if t != o.thread && r > o.c {
                overlap = true;
            }
        }
        let e = max_r.entry(o.thread).or_insert(0);
        if o.r > *e {
            *e = o.r;
        }
        let kind = match &o.k {
            OpK::Push(_) | OpK::PushL(_, _) => 1u64,
            OpK::Pop(vs, _) => 2 + (vs.len().min(3) as u64),
            OpK::Len(_) => 6,
            OpK::Peek(_) => 7,
            OpK::Remove(_, b) => 8 + *b as u64,
            OpK::PopIf(x, _) => 10 + x.is_some() as u64,
        };
        h ^= ((o.thread as u64) << 8) | kind;
        h = h.wrapping_mul(0x100000001b3);
    }
    (h, overlap)
}

fn render(ops: &[Op], max: usize) -> Vec<String> {
    let mut v: Vec<&Op> = ops.iter().collect();
    v.sort_by_key(|o| o.c);
    v.iter().rev().take(max).rev().map(|o| format!("t{} [#{},#{}] {:?}", o.thread, o.c, o.r, o.k)).collect()
}

// ------------------------------------------------------------------ mpsc / spsc executions
trait FifoQ: Send + Sync + 'static {
    fn push(&self, v: Tracked);
    fn pop(&self) -> Option<Tracked>;
    fn bulk_pop(&self) -> Vec<Tracked>;
    fn len(&self) -> usize;
    fn peek(&self) -> Option<u64>;
}
impl FifoQ for mpsc::Queue<Tracked> {
    fn push(&self, v: Tracked) {
        mpsc::Queue::push(self, v)
    }
    fn pop(&self) -> Option<Tracked> {
        mpsc::Queue::pop(self)
    }
    fn bulk_pop(&self) -> Vec<Tracked> {
        mpsc::Queue::bulk_pop(self).into_iter().collect()
    }
    fn len(&self) -> usize {
        mpsc::Queue::len(self)
    }
    fn peek(&self) -> Option<u64> {
        unsafe { mpsc::Queue::peek(self) }.map(|t| t.value())
    }
}
impl FifoQ for spsc::Queue<Tracked> {
    fn push(&self, v: Tracked) {
        spsc::Queue::push(self, v)
    }
    fn pop(&self) -> Option<Tracked> {
        spsc::Queue::pop(self)
    }
    fn bulk_pop(&self) -> Vec<Tracked> {
        spsc::Queue::bulk_pop(self).into_iter().collect()
    }
    fn len(&self) -> usize {
        spsc::Queue::len(self)
    }
    fn peek(&self) -> Option<u64> {
        unsafe { spsc::Queue::peek(self) }.map(|t| t.value())
    }
}
/// reference implementation for the scenario self-check: VecDeque under a lock
struct LockedQ(Mutex<VecDeque<Tracked>>);
impl FifoQ for LockedQ {
    fn push(&self, v: Tracked) {
        self.0.lock().unwrap().push_back(v)
    }
    fn pop(&self) -> Option<Tracked> {
        self.0.lock().unwrap().pop_front()
    }
    fn bulk_pop(&self) -> Vec<Tracked> {
        let mut g = self.0.lock().unwrap();
        let n = g.len().min(5);
        g.drain(..n).collect()
    }
    fn len(&self) -> usize {
        self.0.lock().unwrap().len()
    }
    fn peek(&self) -> Option<u64> {
        self.0.lock().unwrap().front().map(|t| t.value())
    }
}

fn fifo_exec(q: Arc<dyn FifoQ>, producers: usize, per: usize, prefill: usize, leave: usize, r: &mut Rng, miri: bool) -> Result<ExecOut, String> {
    let total = prefill + producers * per;
    let reg: Arc<Vec<AtomicU32>> = Arc::new((0..total).map(|_| AtomicU32::new(0)).collect());
    let mut ops: Vec<Op> = Vec::new();
    // prefill from the consumer thread so that the concurrent part straddles a block boundary
    // (thread id of prefill pushes = producer 0's id space: values 0..prefill belong to "producer 99")
    for v in 0..prefill as u64 {
        let c = stamp();
        q.push(Tracked::new(v, &reg));
        ops.push(Op { thread: 99, k: OpK::Push(v), c, r: stamp() });
    }
    let bar = Arc::new(Barrier::new(producers + 1));
    let done = Arc::new(AtomicUsize::new(0));
    let mut hs = vec![];
    for p in 0..producers {
        let (q, reg, bar, done) = (q.clone(), reg.clone(), bar.clone(), done.clone());
        let mut pr = Rng::new(r.next());
        hs.push(std::thread::spawn(move || {
            set_role(1 + p as u32);
            let mut ops = Vec::with_capacity(per);
            bar.wait();
            for i in 0..per {
                let v = (prefill + p * per + i) as u64;
                let c = stamp();
                q.push(Tracked::new(v, &reg));
                ops.push(Op { thread: 1 + p as u32, k: OpK::Push(v), c, r: stamp() });
                if pr.chance(1, 16) {
                    std::thread::yield_now();
                }
            }
            done.fetch_add(1, SeqCst);
            ops
        }));
    }
    set_role(0);
    bar.wait();
    let want = total - leave;
    let mut got = 0usize;
    let mut idle = 0u32;
    let mut idle_done = 0u32; // empty results of pops that were *called* after every push had returned
    let mut cops: Vec<Op> = Vec::new();
    while got < want {
        let all_pushed = done.load(SeqCst) == producers;
        let what = r.below(10);
        let c = stamp();
        match what {
            0 => {
                let n = q.len();
                cops.push(Op { thread: 0, k: OpK::Len(n), c, r: stamp() });
            }
            1 => {
                let p = q.peek();
                cops.push(Op { thread: 0, k: OpK::Peek(p), c, r: stamp() });
            }
            2 | 3 if want - got >= 64 || leave == 0 => {
                let vs: Vec<u64> = q.bulk_pop().into_iter().map(|t| t.value()).collect();
                got += vs.len();
                idle = if vs.is_empty() { idle + 1 } else { 0 };
                idle_done = if vs.is_empty() && all_pushed { idle_done + 1 } else { 0 };
                cops.push(Op { thread: 0, k: OpK::Pop(vs, true), c, r: stamp() });
            }
            _ => {
                let v = q.pop().map(|t| t.value());
                idle = if v.is_none() { idle + 1 } else { 0 };
                idle_done = if v.is_none() && all_pushed { idle_done + 1 } else { 0 };
                got += v.is_some() as usize;
                cops.push(Op { thread: 0, k: OpK::Pop(v.into_iter().collect(), false), c, r: stamp() });
            }
        }
        if idle > 0 {
            if idle_done > 3 {
                // every push has returned and the queue keeps saying empty: the checker will report it
                break;
            }
            if miri {
                std::thread::yield_now();
            } else if idle > 50 {
                std::thread::sleep(Duration::from_micros(20));
            } else {
                std::hint::spin_loop();
            }
        }
    }
    for h in hs {
        ops.extend(h.join().map_err(|_| "producer thread panicked (assertion inside the queue)".to_string())?);
    }
    ops.extend(cops);
    let desc = format!("producers={} per={} prefill={} leave_in_queue={}", producers, per, prefill, leave);
    check_fifo(&ops, 0, &|v| if (v as usize) < prefill { 99 } else { 1 + ((v as usize - prefill) / per.max(1)) as u32 }).map_err(|e| format!("{} | {} | last ops: {:?}", e, desc, render(&ops, 24)))?;
    if got < want {
        return Err(format!("lost: only {} of {} values could be popped after all pushes returned | {}", got, want, desc));
    }
    // queue drop with `leave` values inside: every payload dropped exactly once overall
    drop(q);
    for (v, c) in reg.iter().enumerate() {
        let d = c.load(SeqCst);
        if d != 1 {
            return Err(format!("drop: payload of value {} dropped {} times (queue dropped with {} values left) | {}", v, d, leave, desc));
        }
    }
    let (sig, overlap) = history_sig(&ops);
    Ok(ExecOut { ops, overlap, sig, desc })
}

// ------------------------------------------------------------------ spmc executions (C04)
fn spmc_exec(stealers: usize, total: usize, r: &mut Rng, miri: bool) -> Result<ExecOut, String> {
    let reg: Arc<Vec<AtomicU32>> = Arc::new((0..total + stealers + 2 + 4 * 32).map(|_| AtomicU32::new(0)).collect());
    let (steal, mut local) = spmc::local::<Tracked>();
    let bar = Arc::new(Barrier::new(stealers + 1));
    let owner_done = Arc::new(AtomicBool::new(false));
    let stop = Arc::new(AtomicBool::new(false));
    let mut hs = vec![];
    for s in 0..stealers {
        let (steal, bar, owner_done, stop) = (steal.clone(), bar.clone(), owner_done.clone(), stop.clone());
        let mut sr = Rng::new(r.next());
        hs.push(std::thread::spawn(move || -> Result<(Vec<Op>, usize), String> {
            set_role(1 + s as u32);
            let (_mysteal, mut mine) = spmc::local::<Tracked>();
            let mut ops = Vec::new();
            let mut while_owner_active = 0usize;
            bar.wait();
            let mut idle = 0;
            loop {
                let c = stamp();
                let mode = sr.below(4);
                let mut vals: Vec<u64> = Vec::new();
                if mode == 0 {
                    // direct pop through the stealer side of the same queue type: Steal has only
                    // steal_into, so a single-value take is a steal whose batch may have length 1
                }
                let got = steal.steal_into(&mut mine);
                // the remainder of the batch was re-queued locally in order; the returned task is the last one
                let mut rest: Vec<u64> = Vec::new();
                while let Some(t) = mine.pop() {
                    rest.push(t.value());
                }
                if let Some(t) = got {
                    vals.extend(rest.iter());
                    vals.push(t.value());
                } else if !rest.is_empty() {
                    return Err("steal_into returned None but moved tasks into the destination queue".into());
                }
                let rr = stamp();
                if !vals.is_empty() {
                    if !owner_done.load(SeqCst) {
                        while_owner_active += vals.len();
                    }
                    idle = 0;
                } else {
                    idle += 1;
                }
                ops.push(Op { thread: 1 + s as u32, k: OpK::Pop(vals, true), c, r: rr });
                if stop.load(SeqCst) {
                    break;
                }
                if idle > 0 {
                    if miri || idle % 8 == 0 {
                        std::thread::yield_now();
                    } else {
                        std::hint::spin_loop();
                    }
                }
            }
            Ok((ops, while_owner_active))
        }));
    }
    set_role(0);
    bar.wait();
    let mut ops: Vec<Op> = Vec::new();
    let mut pushed = 0u64;
    let mut burst = 0;
    while (pushed as usize) < total {
        // hover around empty and around block boundaries: pushes in bursts, pops in between
        if burst == 0 {
            let big = r.chance(1, 4);
            burst = 1 + r.below(if big { 70 } else { 6 });
        }
        let c = stamp();
        local.push_back(Tracked::new(pushed, &reg));
        ops.push(Op { thread: 0, k: OpK::Push(pushed), c, r: stamp() });
        pushed += 1;
        burst -= 1;
        if burst == 0 || r.chance(1, 5) {
            let n = r.below(3);
            for _ in 0..n {
                let c = stamp();
                let v = local.pop().map(|t| t.value());
                ops.push(Op { thread: 0, k: OpK::Pop(v.into_iter().collect(), false), c, r: stamp() });
            }
            if miri && r.chance(1, 3) {
                std::thread::yield_now();
            }
        }
    }
    owner_done.store(true, SeqCst);
    // owner drains what it can. No flush values here: `steal_into` works out its range after it has locked the head
    // (bulk_pop), so a stealer never waits for the owner - it used to after an ABA on the packed head word, holding the
    // tasks in front of the slots it had over-claimed until that many more were pushed (D34: with no more work for
    // that worker the runtime hung)
    loop {
        let c = stamp();
        let v = local.pop().map(|t| t.value());
        let none = v.is_none();
        ops.push(Op { thread: 0, k: OpK::Pop(v.into_iter().collect(), false), c, r: stamp() });
        if none {
            break;
        }
    }
    let t0 = std::time::Instant::now();
    stop.store(true, SeqCst);
    let mut overlap_taken = 0;
    let mut joined = 0;
    // termination: every steal_into returns although nothing is pushed any more (the 20 s are a watchdog for a thread
    // that would otherwise sleep for ever, not a latency bound)
    while joined < hs.len() {
        if hs[joined].is_finished() {
            joined += 1;
            continue;
        }
        if !miri && t0.elapsed() > Duration::from_secs(20) {
            return Err("termination: a stealer did not return from steal_into 20s after the owner stopped pushing (its claim reaches beyond what was pushed and it waits for more)".to_string());
        }
        std::thread::yield_now();
        if !miri {
            std::thread::sleep(Duration::from_micros(50));
        }
    }
    for h in hs {
        let (o, w) = h.join().map_err(|_| "stealer thread panicked (assertion inside the queue)".to_string())??;
        overlap_taken += w;
        ops.extend(o);
    }
    // leftovers (flush values nobody took)
    loop {
        let c = stamp();
        let v = local.pop().map(|t| t.value());
        let none = v.is_none();
        ops.push(Op { thread: 0, k: OpK::Pop(v.into_iter().collect(), false), c, r: stamp() });
        if none {
            break;
        }
    }
    let desc = format!("stealers={} values={} (no flush) taken by stealers while the owner was pushing: {}", stealers, total, overlap_taken);
    check_spmc(&ops, pushed).map_err(|e| format!("{} | {} | last ops: {:?}", e, desc, render(&ops, 24)))?;
    drop(local);
    drop(steal);
    for v in 0..pushed as usize {
        let d = reg[v].load(SeqCst);
        if d != 1 {
            return Err(format!("drop: task {} dropped {} times | {}", v, d, desc));
        }
    }
    let (sig, _) = history_sig(&ops);
    Ok(ExecOut { ops, overlap: overlap_taken > 0, sig, desc })
}

/// the same queue driven through `spmc::Queue` directly: owner `push`, any thread `pop` / `bulk_pop`
fn spmcq_exec(takers: usize, total: usize, r: &mut Rng, miri: bool) -> Result<ExecOut, String> {
    let reg: Arc<Vec<AtomicU32>> = Arc::new((0..total + takers + 80 + 4 * 32).map(|_| AtomicU32::new(0)).collect());
    let q = Arc::new(spmc::Queue::<Tracked>::new());
    let bar = Arc::new(Barrier::new(takers + 1));
    let owner_done = Arc::new(AtomicBool::new(false));
    let stop = Arc::new(AtomicBool::new(false));
    let mut hs = vec![];
    for s in 0..takers {
        let (q, bar, owner_done, stop) = (q.clone(), bar.clone(), owner_done.clone(), stop.clone());
        let mut sr = Rng::new(r.next());
        hs.push(std::thread::spawn(move || -> (Vec<Op>, usize) {
            set_role(1 + s as u32);
            let mut ops = Vec::new();
            let mut while_owner_active = 0usize;
            bar.wait();
            let mut idle = 0;
            loop {
                let c = stamp();
                let bulk = sr.chance(1, 2);
                let vals: Vec<u64> = if bulk { q.bulk_pop().into_iter().map(|t| t.value()).collect() } else { q.pop().map(|t| t.value()).into_iter().collect() };
                let rr = stamp();
                if !vals.is_empty() {
                    if !owner_done.load(SeqCst) {
                        while_owner_active += vals.len();
                    }
                    idle = 0;
                } else {
                    idle += 1;
                }
                ops.push(Op { thread: 1 + s as u32, k: OpK::Pop(vals, bulk), c, r: rr });
                if stop.load(SeqCst) {
                    break;
                }
                if idle > 0 && (miri || idle % 8 == 0) {
                    std::thread::yield_now();
                }
            }
            (ops, while_owner_active)
        }));
    }
    set_role(0);
    bar.wait();
    let mut ops: Vec<Op> = Vec::new();
    let mut pushed = 0u64;
    while (pushed as usize) < total {
        let big = r.chance(1, 4);
        let burst = 1 + r.below(if big { 70 } else { 6 });
        for _ in 0..burst {
            let c = stamp();
            q.push(Tracked::new(pushed, &reg));
            ops.push(Op { thread: 0, k: OpK::Push(pushed), c, r: stamp() });
            pushed += 1;
        }
        if r.chance(1, 3) {
            let c = stamp();
            let v = q.pop().map(|t| t.value());
            ops.push(Op { thread: 0, k: OpK::Pop(v.into_iter().collect(), true), c, r: stamp() });
        }
        if miri && r.chance(1, 3) {
            std::thread::yield_now();
        }
    }
    owner_done.store(true, SeqCst);
    // flush values let every taker that claimed a slot beyond the tail complete
    for _ in 0..takers + 1 {
        let c = stamp();
        q.push(Tracked::new(pushed, &reg));
        ops.push(Op { thread: 0, k: OpK::Push(pushed), c, r: stamp() });
        pushed += 1;
    }
    // wait until everything was taken (by the takers or by us)
    let t0 = std::time::Instant::now();
    loop {
        let c = stamp();
        let v = q.pop().map(|t| t.value());
        let none = v.is_none();
        ops.push(Op { thread: 0, k: OpK::Pop(v.into_iter().collect(), true), c, r: stamp() });
        if none && q.is_empty() {
            break;
        }
        if !miri && t0.elapsed() > Duration::from_secs(20) {
            return Err("termination: the queue never drained".into());
        }
    }
    stop.store(true, SeqCst);
    let mut joined = 0;
    let mut extra_flush = 0usize;
    while joined < hs.len() {
        if hs[joined].is_finished() {
            joined += 1;
            continue;
        }
        // see spmc_exec: a claim that reaches beyond the tail (ABA) completes once those slots are filled
        if !miri && extra_flush < 4 * 32 && t0.elapsed() > Duration::from_millis(20 + 15 * extra_flush as u64) {
            let c = stamp();
            q.push(Tracked::new(pushed, &reg));
            ops.push(Op { thread: 0, k: OpK::Push(pushed), c, r: stamp() });
            pushed += 1;
            extra_flush += 1;
        }
        if !miri && t0.elapsed() > Duration::from_secs(20) {
            return Err(format!("termination: a taker did not finish 20s after the owner pushed {} flush values, four blocks' worth (claimed slot never completes)", takers + 1 + extra_flush));
        }
        std::thread::yield_now();
        if !miri {
            std::thread::sleep(Duration::from_micros(50));
        }
    }
    let mut overlap_taken = 0;
    for h in hs {
        let (o, w) = h.join().map_err(|_| "taker thread panicked (assertion inside the queue)".to_string())?;
        overlap_taken += w;
        ops.extend(o);
    }
    loop {
        let c = stamp();
        let v = q.pop().map(|t| t.value());
        let none = v.is_none();
        ops.push(Op { thread: 0, k: OpK::Pop(v.into_iter().collect(), true), c, r: stamp() });
        if none {
            break;
        }
    }
    let desc = format!("direct Queue: takers={} values={} (+{} flush) taken by others while the owner was pushing: {}", takers, total, takers + 1, overlap_taken);
    // owner pops go through the multi-consumer pop here: only exactly-once / batch order / freshness apply
    check_spmc_opts(&ops, pushed, false).map_err(|e| format!("{} | {} | last ops: {:?}", e, desc, render(&ops, 24)))?;
    drop(q);
    for v in 0..pushed as usize {
        let d = reg[v].load(SeqCst);
        if d != 1 {
            return Err(format!("drop: task {} dropped {} times | {}", v, d, desc));
        }
    }
    let (sig, _) = history_sig(&ops);
    Ok(ExecOut { ops, overlap: overlap_taken > 0, sig, desc })
}

fn check_spmc(ops: &[Op], pushed: u64) -> V {
    check_spmc_opts(ops, pushed, true)
}

fn check_spmc_opts(ops: &[Op], pushed: u64, owner_order: bool) -> V {
    let mut taken: HashMap<u64, (u32, u64)> = HashMap::new();
    let mut push_c: HashMap<u64, u64> = HashMap::new();
    for o in ops {
        if let OpK::Push(v) = o.k {
            push_c.insert(v, o.c);
        }
    }
    let mut owner_last: Option<u64> = None;
    let mut v: Vec<&Op> = ops.iter().collect();
    v.sort_by_key(|o| o.c);
    for o in v {
        if let OpK::Pop(vs, batch) = &o.k {
            for &x in vs {
                if x >= pushed {
                    return viol(format!("fresh: task {} obtained at [#{},#{}] was never pushed (uninitialised slot)", x, o.c, o.r));
                }
                if push_c[&x] > o.r {
                    return viol(format!("fresh: task {} obtained before it was pushed", x));
                }
                if let Some((t, s)) = taken.insert(x, (o.thread, o.c)) {
                    return viol(format!("duplicate: task {} obtained by thread {} (op at #{}) and again by thread {} (op at #{})", x, t, s, o.thread, o.c));
                }
            }
            if o.thread == 0 && owner_order {
                for &x in vs {
                    if let Some(l) = owner_last {
                        if x < l {
                            return viol(format!("order: the owner popped {} after {}", x, l));
                        }
                    }
                    owner_last = Some(x);
                }
            } else if *batch && vs.len() > 1 {
                for w in vs.windows(2) {
                    if w[1] != w[0] + 1 {
                        return viol(format!("order: stolen batch {:?} is not a contiguous increasing run of the push order", vs));
                    }
                }
            }
        }
    }
    for x in 0..pushed {
        if !taken.contains_key(&x) {
            return viol(format!("lost: task {} was pushed but nobody obtained it", x));
        }
    }
    Ok(())
}

// ------------------------------------------------------------------ timer entry list (C19)
/// sequential random ops against a reference model (VecDeque + consumed flags)
fn listseq_exec(r: &mut Rng) -> Result<ExecOut, String> {
    let n_ops = 20 + r.below(120) as usize;
    let reg: Arc<Vec<AtomicU32>> = Arc::new((0..n_ops).map(|_| AtomicU32::new(0)).collect());
    let q = list::Queue::<Tracked>::new();
    let mut model: VecDeque<u64> = VecDeque::new();
    let mut handles: Vec<(u64, list::Entry<Tracked>)> = Vec::new();
    let mut consumed: HashSet<u64> = HashSet::new();
    let mut next = 0u64;
    let mut trace: Vec<String> = Vec::new();
    let mut ops = Vec::new();
    for _ in 0..n_ops {
        let c = stamp();
        match r.below(8) {
            0..=2 => {
                let (h, is_head) = q.push(Tracked::new(next, &reg));
                let want_head = model.is_empty();
                trace.push(format!("push({})->head={}", next, is_head));
                if is_head != want_head {
                    return viol(format!("is_head: push({}) reported head={} but the list held {} entries | {:?}", next, is_head, model.len(), trace));
                }
                model.push_back(next);
                handles.push((next, h));
                ops.push(Op { thread: 0, k: OpK::PushL(next, is_head), c, r: stamp() });
                next += 1;
            }
            3 => {
                let got = q.pop().map(|t| t.value());
                let want = model.pop_front();
                trace.push(format!("pop->{:?}", got));
                if got != want {
                    return viol(format!("pop returned {:?}, model says {:?} | {:?}", got, want, trace));
                }
                if let Some(v) = got {
                    consumed.insert(v);
                }
                ops.push(Op { thread: 0, k: OpK::Pop(got.into_iter().collect(), false), c, r: stamp() });
            }
            4 => {
                let lim = r.below(next + 1);
                let got = q.pop_if(&|t: &Tracked| t.v <= lim).map(|t| t.value());
                let want = if model.front().map(|&v| v <= lim).unwrap_or(false) { model.pop_front() } else { None };
                trace.push(format!("pop_if(<={})->{:?}", lim, got));
                if got != want {
                    return viol(format!("pop_if returned {:?}, model says {:?} | {:?}", got, want, trace));
                }
                if let Some(v) = got {
                    consumed.insert(v);
                }
                ops.push(Op { thread: 0, k: OpK::PopIf(got, false), c, r: stamp() });
            }
            5 => {
                let got = unsafe { q.peek() }.map(|t| t.value());
                trace.push(format!("peek->{:?}", got));
                if got != model.front().copied() {
                    return viol(format!("peek returned {:?}, model says {:?} | {:?}", got, model.front(), trace));
                }
                ops.push(Op { thread: 0, k: OpK::Peek(got), c, r: stamp() });
            }
            6 if !handles.is_empty() => {
                let i = r.below(handles.len() as u64) as usize;
                let (v, h) = handles.swap_remove(i);
                let linked = h.is_link();
                let in_model = model.contains(&v);
                // is_link() stays true for a popped entry while its node serves as the list's stub,
                // so only one direction is a fact: an unlinked entry has been consumed
                if !linked && in_model {
                    return viol(format!("is_link({}) = false but the entry is still in the list | {:?}", v, trace));
                }
                let got = h.remove().map(|t| t.value());
                // removing the newest entry is documented as a no-op (left for pop)
                let is_last = model.back() == Some(&v);
                let want = if in_model && !is_last { Some(v) } else { None };
                trace.push(format!("remove({})->{:?}", v, got));
                if got != want {
                    return viol(format!("remove({}) returned {:?}, model says {:?} (in list: {}, newest: {}) | {:?}", v, got, want, in_model, is_last, trace));
                }
                if got.is_some() {
                    model.retain(|&x| x != v);
                    consumed.insert(v);
                }
                ops.push(Op { thread: 0, k: OpK::Remove(v, got.is_some()), c, r: stamp() });
            }
            _ if !handles.is_empty() => {
                // dropping a handle never consumes the entry
                let i = r.below(handles.len() as u64) as usize;
                let (v, h) = handles.swap_remove(i);
                drop(h);
                trace.push(format!("drop_handle({})", v));
            }
            _ => {}
        }
        if q.is_empty() != model.is_empty() {
            return viol(format!("is_empty() = {} but the model holds {} entries | {:?}", q.is_empty(), model.len(), trace));
        }
    }
    // both orders of letting go: the handles first, or the list first while handles are still held (the timer list
    // of an interval is dropped like that); a handle outliving its list must stay usable and report "already gone"
    if r.chance(1, 2) {
        drop(handles);
        drop(q);
    } else {
        drop(q);
        trace.push("drop(list) before the handles".into());
        for (v, h) in handles.drain(..) {
            if r.chance(1, 2) {
                if let Some(t) = h.remove() {
                    return viol(format!("remove({}) after the list was dropped returned the value {} (the list's drop consumed every entry) | {:?}", v, t.value(), trace));
                }
            } else {
                drop(h);
            }
        }
    }
    for v in 0..next as usize {
        let d = reg[v].load(SeqCst);
        if d != 1 {
            return viol(format!("drop: entry {} dropped {} times | {:?}", v, d, trace));
        }
    }
    let (sig, _) = history_sig(&ops);
    Ok(ExecOut { ops, overlap: true, sig, desc: format!("sequential ops={}", n_ops) })
}

enum Cmd {
    Handle(u64, list::Entry<Tracked>),
}

/// The protocol TimeOutList builds on the head report: the consumer sleeps once it has seen the list empty and is
/// only woken by a push that reports `is_head`. Producers raise a token for every head report; the consumer drains
/// (pop until None) only after a token. Exact oracle, no timing: when every push has returned, every token has been
/// served and entries are still in the list, a push onto the drained list reported `is_head == false` (a stranded
/// timer in the runtime). Also FIFO per producer and exactly-once.
fn listproto_exec(producers: usize, per: usize, r: &mut Rng, miri: bool) -> Result<ExecOut, String> {
    let total = producers * per;
    let reg: Arc<Vec<AtomicU32>> = Arc::new((0..total).map(|_| AtomicU32::new(0)).collect());
    let q = Arc::new(list::Queue::<Tracked>::new());
    let tokens = Arc::new(AtomicUsize::new(0));
    let bar = Arc::new(Barrier::new(producers + 1));
    let done = Arc::new(AtomicUsize::new(0));
    let mut hs = vec![];
    for p in 0..producers {
        let (q, reg, bar, done, tokens) = (q.clone(), reg.clone(), bar.clone(), done.clone(), tokens.clone());
        let mut pr = Rng::new(r.next());
        hs.push(std::thread::spawn(move || {
            set_role(1 + p as u32);
            let mut ops = Vec::new();
            let mut keep = Vec::new();
            bar.wait();
            for i in 0..per {
                let v = (p * per + i) as u64;
                let c = stamp();
                let (h, is_head) = q.push(Tracked::new(v, &reg));
                if is_head {
                    tokens.fetch_add(1, SeqCst);
                }
                let rr = stamp();
                ops.push(Op { thread: 1 + p as u32, k: OpK::PushL(v, is_head), c, r: rr });
                keep.push(h);
                // let the consumer drain and go idle every now and then: pushes onto an empty list are the point
                if pr.chance(1, 3) {
                    for _ in 0..pr.below(if miri { 3 } else { 200 }) {
                        std::hint::spin_loop();
                    }
                    if pr.chance(1, 6) {
                        std::thread::yield_now();
                    }
                }
            }
            done.fetch_add(1, SeqCst);
            (ops, keep)
        }));
    }
    set_role(0);
    bar.wait();
    let mut cops: Vec<Op> = Vec::new();
    let mut consumed = 0usize;
    let mut drains = 0usize;
    loop {
        let all = done.load(SeqCst) == producers;
        if tokens.swap(0, SeqCst) > 0 {
            drains += 1;
            loop {
                let c = stamp();
                let got = q.pop().map(|t| t.value());
                let none = got.is_none();
                consumed += got.is_some() as usize;
                cops.push(Op { thread: 0, k: OpK::Pop(got.into_iter().collect(), false), c, r: stamp() });
                if none {
                    break;
                }
            }
        } else if all {
            // `done` was read before the token check: every push has returned and raised its token by now
            break;
        } else if miri {
            std::thread::yield_now();
        } else {
            std::hint::spin_loop();
        }
    }
    let mut ops: Vec<Op> = Vec::new();
    let mut keep_all = Vec::new();
    for h in hs {
        let (o, k) = h.join().map_err(|_| "producer panicked".to_string())?;
        ops.extend(o);
        keep_all.push(k);
    }
    if consumed != total {
        // what is left, and which push should have announced it
        let mut left = vec![];
        while let Some(t) = q.pop() {
            left.push(t.value());
        }
        let first = left.first().copied();
        let rep = first.and_then(|f| ops.iter().find_map(|o| if let OpK::PushL(v, h) = o.k { if v == f { Some((o.c, o.r, h)) } else { None } } else { None }));
        return Err(format!(
            "head-report protocol: all {} pushes returned and every token was served ({} drains), yet {} entries are still in the list: {:?}; the consumer had drained the list before entry {:?} was pushed at {:?} (call,ret,is_head) and no later push reported a head: a stranded timer",
            total,
            drains,
            left.len(),
            &left[..left.len().min(8)],
            first,
            rep
        ));
    }
    // FIFO per producer, exactly once
    let mut last: HashMap<usize, u64> = HashMap::new();
    let mut seen: HashSet<u64> = HashSet::new();
    for o in &cops {
        if let OpK::Pop(vs, _) = &o.k {
            for &v in vs {
                if !seen.insert(v) {
                    return Err(format!("entry {} popped twice", v));
                }
                let p = v as usize / per;
                if let Some(&l) = last.get(&p) {
                    if v <= l {
                        return Err(format!("entries of producer {} popped out of order: {} after {}", p, v, l));
                    }
                }
                last.insert(p, v);
            }
        }
    }
    drop(keep_all);
    drop(q);
    for v in 0..total {
        let d = reg[v].load(SeqCst);
        if d != 1 {
            return Err(format!("drop: entry {} dropped {} times", v, d));
        }
    }
    ops.extend(cops);
    let (sig, _) = history_sig(&ops);
    Ok(ExecOut { ops, overlap: drains > 1, sig, desc: format!("head-report protocol producers={} per={} drains={}", producers, per, drains) })
}

/// concurrent producers vs the single consumer. Handles travel to the consumer over a std
/// channel (documented contract: handles are only touched on the consumer side).
fn list_exec(producers: usize, per: usize, r: &mut Rng, miri: bool) -> Result<ExecOut, String> {
    let total = producers * per;
    let reg: Arc<Vec<AtomicU32>> = Arc::new((0..total).map(|_| AtomicU32::new(0)).collect());
    let q = Arc::new(list::Queue::<Tracked>::new());
    let (tx, rx) = std::sync::mpsc::channel::<Cmd>();
    let bar = Arc::new(Barrier::new(producers + 1));
    let done = Arc::new(AtomicUsize::new(0));
    let mut hs = vec![];
    for p in 0..producers {
        let (q, reg, bar, done, tx) = (q.clone(), reg.clone(), bar.clone(), done.clone(), tx.clone());
        let mut pr = Rng::new(r.next());
        hs.push(std::thread::spawn(move || {
            set_role(1 + p as u32);
            let mut ops = Vec::new();
            bar.wait();
            for i in 0..per {
                let v = (p * per + i) as u64;
                let c = stamp();
                let (h, is_head) = q.push(Tracked::new(v, &reg));
                let rr = stamp();
                ops.push(Op { thread: 1 + p as u32, k: OpK::PushL(v, is_head), c, r: rr });
                tx.send(Cmd::Handle(v, h)).unwrap();
                if pr.chance(1, 8) {
                    std::thread::yield_now();
                }
            }
            done.fetch_add(1, SeqCst);
            ops
        }));
    }
    drop(tx);
    set_role(0);
    bar.wait();
    let mut cops: Vec<Op> = Vec::new();
    let mut handles: Vec<(u64, list::Entry<Tracked>)> = Vec::new();
    let mut consumed = 0usize;
    let mut idle = 0;
    let mut idle_done = 0;
    loop {
        while let Ok(Cmd::Handle(v, h)) = rx.try_recv() {
            handles.push((v, h));
        }
        let all = done.load(SeqCst) == producers;
        let c = stamp();
        match r.below(6) {
            0 | 1 => {
                let got = q.pop().map(|t| t.value());
                idle = if got.is_none() { idle + 1 } else { 0 };
                idle_done = if got.is_none() && all { idle_done + 1 } else { 0 };
                consumed += got.is_some() as usize;
                cops.push(Op { thread: 0, k: OpK::Pop(got.into_iter().collect(), false), c, r: stamp() });
            }
            2 => {
                let got = q.pop_if(&|_t: &Tracked| true).map(|t| t.value());
                idle = if got.is_none() { idle + 1 } else { 0 };
                idle_done = if got.is_none() && all { idle_done + 1 } else { 0 };
                consumed += got.is_some() as usize;
                cops.push(Op { thread: 0, k: OpK::PopIf(got, true), c, r: stamp() });
            }
            3 => {
                let got = unsafe { q.peek() }.map(|t| t.value());
                cops.push(Op { thread: 0, k: OpK::Peek(got), c, r: stamp() });
            }
            _ => {
                if !handles.is_empty() {
                    let i = r.below(handles.len() as u64) as usize;
                    let (v, h) = handles.swap_remove(i);
                    let got = h.remove().map(|t| t.value());
                    if let Some(g) = got {
                        if g != v {
                            return Err(format!("remove({}) returned the value {}", v, g));
                        }
                        consumed += 1;
                    }
                    cops.push(Op { thread: 0, k: OpK::Remove(v, got.is_some()), c, r: stamp() });
                }
            }
        }
        if consumed >= total {
            break;
        }
        if idle_done > 3 && handles.is_empty() {
            break; // checker reports what is missing
        }
        if idle > 0 {
            if miri || idle % 8 == 0 {
                std::thread::yield_now();
            }
        }
    }
    let mut ops: Vec<Op> = Vec::new();
    for h in hs {
        ops.extend(h.join().map_err(|_| "producer thread panicked (assertion inside the list)".to_string())?);
    }
    while let Ok(Cmd::Handle(v, h)) = rx.try_recv() {
        handles.push((v, h));
    }
    // remove of an already consumed entry returns nothing and leaves the list intact
    for (v, h) in handles.drain(..) {
        let c = stamp();
        let got = h.remove().map(|t| t.value());
        if got.is_some() {
            consumed += 1;
        }
        cops.push(Op { thread: 0, k: OpK::Remove(v, got.is_some()), c, r: stamp() });
    }
    ops.extend(cops);
    let desc = format!("producers={} per={}", producers, per);
    check_list(&ops, total as u64, per as u64).map_err(|e| format!("{} | {} | last ops: {:?}", e, desc, render(&ops, 24)))?;
    if consumed < total {
        // a leftover newest entry (remove no-op) may legitimately stay: pop it now
        while let Some(t) = q.pop() {
            let _ = t.value();
            consumed += 1;
        }
        if consumed < total {
            return Err(format!("lost: {} of {} entries consumed and the list is empty | {}", consumed, total, desc));
        }
    }
    drop(q);
    for v in 0..total {
        let d = reg[v].load(SeqCst);
        if d != 1 {
            return Err(format!("drop: entry {} dropped {} times | {}", v, d, desc));
        }
    }
    let (sig, overlap) = history_sig(&ops);
    Ok(ExecOut { ops, overlap, sig, desc })
}

fn check_list(ops: &[Op], total: u64, per: u64) -> V {
    let mut push: HashMap<u64, (u64, u64, bool)> = HashMap::new();
    for o in ops {
        if let OpK::PushL(v, h) = o.k {
            push.insert(v, (o.c, o.r, h));
        }
    }
    // consumption events in consumer order
    let mut cons: Vec<&Op> = ops.iter().filter(|o| o.thread == 0).collect();
    cons.sort_by_key(|o| o.c);
    let mut consumed_at: HashMap<u64, (u64, u64, &'static str)> = HashMap::new(); // v -> (call, ret, how)
    let mut pop_order: Vec<u64> = Vec::new();
    for o in &cons {
        let (v, how): (Option<u64>, &'static str) = match &o.k {
            OpK::Pop(vs, _) => (vs.first().copied(), "pop"),
            OpK::PopIf(v, _) => (*v, "pop_if"),
            OpK::Remove(v, true) => (Some(*v), "remove"),
            _ => (None, ""),
        };
        if let Some(v) = v {
            if v >= total || !push.contains_key(&v) {
                return viol(format!("fresh: {} returned {} which was never pushed", how, v));
            }
            if push[&v].0 > o.r {
                return viol(format!("fresh: entry {} consumed before it was pushed", v));
            }
            if let Some((c0, _, how0)) = consumed_at.insert(v, (o.c, o.r, how)) {
                return viol(format!("twice: entry {} consumed by {} (op at #{}) and again by {} (op at #{})", v, how0, c0, how, o.c));
            }
            if how != "remove" {
                pop_order.push(v);
            }
        }
    }
    // pop order respects real-time push order and per-producer order
    let mut suffix_min_ret = u64::MAX;
    let mut who = 0;
    for i in (0..pop_order.len()).rev() {
        let a = pop_order[i];
        let (ac, ar, _) = push[&a];
        if suffix_min_ret < ac {
            return viol(format!("order: entry {} popped before entry {} although push({}) returned before push({}) was called", a, who, who, a));
        }
        if ar < suffix_min_ret {
            suffix_min_ret = ar;
            who = a;
        }
    }
    let mut last: HashMap<u64, u64> = HashMap::new();
    for &v in &pop_order {
        let p = v / per.max(1);
        if let Some(&l) = last.get(&p) {
            if v < l {
                return viol(format!("order: producer {} pushed {} before {} but they were popped in the opposite order", p, v, l));
            }
        }
        last.insert(p, v);
    }
    // pop -> None only if no entry completely pushed before is still unconsumed
    for o in &cons {
        let none = matches!(&o.k, OpK::Pop(vs, _) if vs.is_empty()) || matches!(&o.k, OpK::PopIf(None, true)) || matches!(&o.k, OpK::Peek(None));
        if none {
            for (&v, &(_, pr, _)) in push.iter() {
                if pr < o.c {
                    let cons_before = consumed_at.get(&v).map(|x| x.0 < o.c).unwrap_or(false);
                    if !cons_before {
                        return viol(format!("empty: consumer op at [#{},#{}] found the list empty although push({}) had returned at #{} and {} was not consumed before", o.c, o.r, v, pr, v));
                    }
                }
            }
        }
    }
    // is_head, weakest two-sided reading
    for (&v, &(pc, pr, is_head)) in push.iter() {
        if is_head {
            // every entry definitely pushed before must have had its consumption *called* before ret push
            for (&w, &(_, wr, _)) in push.iter() {
                if w != v && wr < pc {
                    let ok = consumed_at.get(&w).map(|x| x.0 < pr).unwrap_or(false);
                    if !ok {
                        return viol(format!("is_head: push({}) at [#{},#{}] reported head although entry {} (push returned #{}) was still unconsumed", v, pc, pr, w, wr));
                    }
                }
            }
        } else {
            // not-head is wrong if every possibly earlier entry was consumed before call push
            // and this entry itself was not yet consumed at ret push
            let mut all_gone = true;
            for (&w, &(wc, _, _)) in push.iter() {
                if w != v && wc < pr {
                    let gone = consumed_at.get(&w).map(|x| x.1 < pc).unwrap_or(false);
                    if !gone {
                        all_gone = false;
                        break;
                    }
                }
            }
            let self_unconsumed = consumed_at.get(&v).map(|x| x.0 > pr).unwrap_or(true);
            if all_gone && self_unconsumed {
                return viol(format!("is_head: push({}) at [#{},#{}] found the list empty (every other entry begun before was consumed earlier) but reported head=false", v, pc, pr));
            }
        }
    }
    Ok(())
}

// ------------------------------------------------------------------ self test of the checkers
fn selftest() -> V {
    let op = |thread, k, c, r| Op { thread, k, c, r };
    let prod = |_v: u64| 1u32;
    // fresh
    let h = vec![op(1, OpK::Push(0), 1, 2), op(0, OpK::Pop(vec![7], false), 3, 4)];
    if check_fifo(&h, 0, &prod).is_ok() {
        return viol("selftest: fresh anomaly not detected".into());
    }
    // repeat
    let h = vec![op(1, OpK::Push(0), 1, 2), op(0, OpK::Pop(vec![0], false), 3, 4), op(0, OpK::Pop(vec![0], false), 5, 6)];
    if check_fifo(&h, 0, &prod).is_ok() {
        return viol("selftest: repeat anomaly not detected".into());
    }
    // order
    let h = vec![op(1, OpK::Push(0), 1, 2), op(2, OpK::Push(1), 3, 4), op(0, OpK::Pop(vec![1], false), 5, 6), op(0, OpK::Pop(vec![0], false), 7, 8)];
    if check_fifo(&h, 0, &|v| 1 + v as u32).is_ok() {
        return viol("selftest: order anomaly not detected".into());
    }
    // empty
    let h = vec![op(1, OpK::Push(0), 1, 2), op(0, OpK::Pop(vec![], false), 3, 4), op(0, OpK::Pop(vec![0], false), 5, 6)];
    if check_fifo(&h, 0, &prod).is_ok() {
        return viol("selftest: empty anomaly not detected".into());
    }
    // legal: concurrent push may be missed
    let h = vec![op(1, OpK::Push(0), 1, 4), op(0, OpK::Pop(vec![], false), 2, 3), op(0, OpK::Pop(vec![0], false), 5, 6)];
    check_fifo(&h, 0, &prod).map_err(|e| format!("selftest: legal history rejected: {}", e))?;
    // len
    let h = vec![op(1, OpK::Push(0), 1, 2), op(0, OpK::Len(0), 3, 4), op(0, OpK::Pop(vec![0], false), 5, 6)];
    if check_fifo(&h, 0, &prod).is_ok() {
        return viol("selftest: wrong len not detected".into());
    }
    // spmc duplicate / lost / batch order
    let h = vec![op(0, OpK::Push(0), 1, 2), op(1, OpK::Pop(vec![0], true), 3, 4), op(2, OpK::Pop(vec![0], true), 5, 6)];
    if check_spmc(&h, 1).is_ok() {
        return viol("selftest: duplicate take not detected".into());
    }
    let h = vec![op(0, OpK::Push(0), 1, 2), op(0, OpK::Push(1), 3, 4), op(1, OpK::Pop(vec![1], true), 5, 6)];
    if check_spmc(&h, 2).is_ok() {
        return viol("selftest: lost task not detected".into());
    }
    let h = vec![op(0, OpK::Push(0), 1, 2), op(0, OpK::Push(1), 3, 4), op(0, OpK::Push(2), 5, 6), op(1, OpK::Pop(vec![0, 2], true), 7, 8), op(0, OpK::Pop(vec![1], false), 9, 10)];
    if check_spmc(&h, 3).is_ok() {
        return viol("selftest: non-contiguous batch not detected".into());
    }
    // list: twice, empty, head
    let h = vec![op(1, OpK::PushL(0, true), 1, 2), op(0, OpK::Pop(vec![0], false), 3, 4), op(0, OpK::Remove(0, true), 5, 6)];
    if check_list(&h, 1, 1).is_ok() {
        return viol("selftest: entry consumed twice not detected".into());
    }
    let h = vec![op(1, OpK::PushL(0, true), 1, 2), op(0, OpK::Pop(vec![], false), 3, 4), op(0, OpK::Pop(vec![0], false), 5, 6)];
    if check_list(&h, 1, 1).is_ok() {
        return viol("selftest: list reported empty not detected".into());
    }
    let h = vec![op(1, OpK::PushL(0, true), 1, 2), op(1, OpK::PushL(1, true), 3, 4), op(0, OpK::Pop(vec![0], false), 5, 6), op(0, OpK::Pop(vec![1], false), 7, 8)];
    if check_list(&h, 2, 2).is_ok() {
        return viol("selftest: wrong is_head=true not detected".into());
    }
    let h = vec![op(1, OpK::PushL(0, false), 1, 2), op(0, OpK::Pop(vec![0], false), 5, 6)];
    if check_list(&h, 1, 1).is_ok() {
        return viol("selftest: wrong is_head=false not detected".into());
    }
    // scenario self-check against a trusted implementation
    let mut r = Rng::new(7);
    for _ in 0..20 {
        fifo_exec(Arc::new(LockedQ(Mutex::new(VecDeque::new()))), 2, 60, 10, 5, &mut r, false).map_err(|e| format!("selftest: locked VecDeque rejected: {}", e))?;
    }
    Ok(())
}

// ------------------------------------------------------------------ driver
fn jstr(s: &str) -> String {
    let mut o = String::from("\"");
    for c in s.chars() {
        match c {
            '"' => o.push_str("\\\""),
            '\\' => o.push_str("\\\\"),
            '\n' => o.push_str("\\n"),
            c if (c as u32) < 0x20 => o.push(' '),
            c => o.push(c),
        }
    }
    o.push('"');
    o
}

fn sites_for(kind: &str) -> Vec<u32> {
    match kind {
        "mpsc" => (1..=8).collect(),
        "spsc" => (10..=15).collect(),
        "spmc" | "spmcq" => (20..=34).collect(),
        _ => (35..=41).collect(),
    }
}

fn main() {
    let args: Vec<String> = std::env::args().collect();
    if args.len() < 2 {
        eprintln!("usage: q <mpsc|spsc|spmc|spmcq|list|listseq|listproto|selftest> [--seed S] [--execs N] [--thorough] [--miri] [--budget-s T]");
        std::process::exit(2);
    }
    let kind = args[1].clone();
    let mut seed = 1u64;
    let mut execs = 200usize;
    let mut thorough = false;
    let mut miri = cfg!(miri);
    let mut budget = 1e9f64;
    let mut i = 2;
    while i < args.len() {
        match args[i].as_str() {
            "--seed" => {
                seed = args[i + 1].parse().unwrap();
                i += 1
            }
            "--execs" => {
                execs = args[i + 1].parse().unwrap();
                i += 1
            }
            "--budget-s" => {
                budget = args[i + 1].parse().unwrap();
                i += 1
            }
            "--thorough" => thorough = true,
            "--miri" => miri = true,
            "--reuse-alloc" => reuse::ENABLED.store(true, SeqCst),
            _ => {}
        }
        i += 1;
    }
    MIRI.store(miri, SeqCst);
    install_hook();
    if kind == "selftest" {
        match selftest() {
            Ok(()) => {
                println!("RESULT {{\"kind\":\"selftest\",\"execs\":16,\"ok\":true}}");
                std::process::exit(0);
            }
            Err(e) => {
                println!("SELFTEST-FAILED {}", e);
                std::process::exit(2);
            }
        }
    }
    let t0 = std::time::Instant::now();
    let mut r = Rng::new(seed);
    let sites = sites_for(&kind);
    let mut sigs: HashSet<u64> = HashSet::new();
    let mut nont: HashSet<u64> = HashSet::new();
    let mut n_ops = 0usize;
    let mut done = 0usize;
    let mut samples: Vec<String> = Vec::new();
    let mut violation: Option<String> = None;
    for e in 0..execs {
        if t0.elapsed().as_secs_f64() > budget {
            break;
        }
        // stall plan: role-directed single stall in ~70% of the executions
        let planned = r.chance(7, 10);
        let (psite, prole, pk, pus) = if planned && !miri && r.chance(1, 4) {
            // every-hit mode (see hook)
            let s = sites[r.below(sites.len() as u64) as usize];
            (s, r.below(4) as u32, u32::MAX, *[2u64, 6, 20, 60].get(r.below(4) as usize).unwrap())
        } else if planned {
            let s = sites[r.below(sites.len() as u64) as usize];
            (s, r.below(4) as u32, 1 + r.below(if thorough { 12 } else { 5 }) as u32, *[200u64, 800, 2000, 5000].get(r.below(4) as usize).unwrap())
        } else {
            (0, 0, 0, 0)
        };
        set_plan(psite, prole, pk, pus);
        let hit0 = STALLS_HIT.load(SeqCst);
        let scale = if miri { 1 } else if thorough { 8 } else { 3 };
        let res = match kind.as_str() {
            "mpsc" => {
                let producers = 1 + r.below(if miri { 2 } else { 4 }) as usize;
                let per = (10 + r.below(40 * scale as u64)) as usize;
                // start offsets relative to the 64-slot block boundary
                let prefill = if miri { r.below(70) as usize } else { (r.below(3) * 64 + 55 + r.below(12)) as usize };
                let leave = if r.chance(1, 3) { r.below(70) as usize } else { 0 }.min(prefill + producers * per);
                fifo_exec(Arc::new(mpsc::Queue::<Tracked>::new()), producers, per, prefill, leave, &mut r, miri)
            }
            "spsc" => {
                let per = (20 + r.below(60 * scale as u64)) as usize;
                let prefill = if miri { r.below(40) as usize } else { (r.below(3) * 32 + 25 + r.below(10)) as usize };
                let leave = if r.chance(1, 3) { r.below(40) as usize } else { 0 }.min(prefill + per);
                fifo_exec(Arc::new(spsc::Queue::<Tracked>::new()), 1, per, prefill, leave, &mut r, miri)
            }
            "spmc" => {
                let stealers = 1 + r.below(if miri { 2 } else { 4 }) as usize;
                let total = (if miri { 40 } else { 200 } + r.below(if miri { 80 } else { 600 * scale as u64 })) as usize;
                spmc_exec(stealers, total, &mut r, miri)
            }
            "spmcq" => {
                let takers = 1 + r.below(if miri { 2 } else { 4 }) as usize;
                let total = (if miri { 40 } else { 200 } + r.below(if miri { 80 } else { 600 * scale as u64 })) as usize;
                spmcq_exec(takers, total, &mut r, miri)
            }
            "list" => {
                let producers = 1 + r.below(if miri { 2 } else { 4 }) as usize;
                let per = (5 + r.below(if miri { 25 } else { 60 * scale as u64 })) as usize;
                list_exec(producers, per, &mut r, miri)
            }
            "listseq" => listseq_exec(&mut r),
            "listproto" => {
                let producers = 1 + r.below(if miri { 2 } else { 3 }) as usize;
                let per = (if miri { 10 } else { 300 } + r.below(if miri { 30 } else { 700 * scale as u64 })) as usize;
                listproto_exec(producers, per, &mut r, miri)
            }
            _ => {
                eprintln!("unknown kind");
                std::process::exit(2);
            }
        };
        set_plan(0, 0, 0, 0);
        match res {
            Ok(o) => {
                done += 1;
                n_ops += o.ops.len();
                sigs.insert(o.sig);
                let hit = STALLS_HIT.load(SeqCst) > hit0;
                if o.overlap || hit {
                    nont.insert(o.sig);
                }
                if samples.len() < 2 && (e % 7 == 3 || e == 0) {
                    samples.push(format!(
                        "{{\"kind\":{},\"exec\":{},\"instance\":{},\"stall\":{},\"ops\":{},\"history_tail\":[{}]}}",
                        jstr(&kind),
                        e,
                        jstr(&o.desc),
                        jstr(&if planned { format!("site {} role {} hit {} for {}us (hit: {})", psite, prole, pk, pus, hit) } else { "none".into() }),
                        o.ops.len(),
                        render(&o.ops, 10).iter().map(|s| jstr(s)).collect::<Vec<_>>().join(",")
                    ));
                }
            }
            Err(msg) => {
                violation = Some(format!("exec {} (seed {}, stall site {} role {} hit {} {}us): {}", e, seed, psite, prole, pk, pus, msg));
                break;
            }
        }
    }
    let hits: Vec<String> = sites.iter().map(|&s| format!("\"{}\":[{},{}]", s, SITE_HITS[s as usize].load(SeqCst), SITE_STALLED[s as usize].load(SeqCst))).collect();
    println!(
        "RESULT {{\"kind\":{},\"reused_blocks\":{},\"seed\":{},\"execs\":{},\"ops\":{},\"sigs\":{},\"nontrivial\":{},\"nontrivial_sigs\":[{}],\"stalls_hit\":{},\"site_hits_stalled\":{{{}}},\"samples\":[{}],\"violation\":{},\"wall_s\":{:.2}}}",
        jstr(&kind),
        reuse::REUSED.load(SeqCst),
        seed,
        done,
        n_ops,
        sigs.len(),
        nont.len(),
        nont.iter().take(20000).map(|x| format!("\"{:x}\"", x)).collect::<Vec<_>>().join(","),
        STALLS_HIT.load(SeqCst),
        hits.join(","),
        samples.join(","),
        violation.as_ref().map(|v| jstr(v)).unwrap_or("null".into()),
        t0.elapsed().as_secs_f64()
    );
    if let Some(v) = violation {
        println!("VIOLATION-DETAIL {}", v);
        std::process::exit(10);
    }
    std::process::exit(0);
}
