"""Driver part for the may_queue checks (C03, C04, C19): native / ASan / TSan / Miri lanes of /verif/q."""
import concurrent.futures as cf
import hashlib
import json
import os
import re
import subprocess
import time

ROOT = os.path.dirname(os.path.abspath(__file__))
TARGET = os.path.join(ROOT, 'target')
ENV_BASE = dict(os.environ, CARGO_NET_OFFLINE='true')
NCPU = os.cpu_count() or 16

KINDS = {'C03': ['mpsc', 'spsc'], 'C04': ['spmc', 'spmcq'], 'C19': ['list', 'listseq', 'listproto']}
MIRI_MEM = '-Zmiri-disable-stacked-borrows -Zmiri-disable-validation -Zmiri-disable-data-race-detector -Zmiri-permissive-provenance -Zmiri-disable-isolation'
MIRI_RACE = '-Zmiri-disable-stacked-borrows -Zmiri-permissive-provenance -Zmiri-disable-isolation'

RULE = ('executions = seeded histories of the real may_queue structure on plain OS threads (1 consumer/owner + 1-4 producers/stealers, tens to thousands of '
        'operations with unique values, start offsets straddling the 32/64-slot block boundary), ~70% of them with one role-directed stall (site, role, k-th hit, '
        '0.2-5 ms) in a hook window; every history is checked offline (queue anomalies fresh/repeat/order/empty, len bounds, exactly-one-taker, batch order, '
        'is_head bounds, drop-exactly-once). Native + ASan (+ TSan for mpsc) and Miri (memory mode; race mode for mpsc) with Miri\'s seeded scheduler. '
        'non-trivial = operations of two threads overlapped in logical time or the planned stall was hit; distinct = distinct hash of the (thread, op kind) call order.')


def log(*a):
    print(*a, flush=True)


def miri_cmd(kind, seeds, execs, seed, flags):
    env = dict(ENV_BASE, MIRIFLAGS=f'{flags} -Zmiri-many-seeds={seeds[0]}..{seeds[1]}', RUSTFLAGS='--cfg may_verif', CARGO_TARGET_DIR=f'{TARGET}/miri')
    cmd = ['cargo', '+nightly', 'miri', 'run', '--offline', '--', kind, '--execs', str(execs), '--miri', '--seed', str(seed)]
    return cmd, env


def run_one(job):
    t0 = time.time()
    try:
        p = subprocess.run(job['cmd'], cwd=job.get('cwd', ROOT), env=job['env'], stdout=subprocess.PIPE, stderr=subprocess.PIPE, text=True, errors='replace', timeout=job['timeout'])
        rc, out, err = p.returncode, p.stdout, p.stderr
    except subprocess.TimeoutExpired as e:
        rc, out, err = -999, e.stdout.decode(errors='replace') if isinstance(e.stdout, bytes) else (e.stdout or ''), ''
    results = []
    for l in out.splitlines():
        if l.startswith('RESULT '):
            try:
                results.append(json.loads(l[7:]))
            except Exception:
                pass
    viol = []
    for r in results:
        if r.get('violation'):
            viol.append({'kind': 'violation', 'msg': r['violation'], 'lane': job['lane'], 'qkind': job['kind'], 'cmd': ' '.join(job['cmd']), 'env': job['envdesc']})
    text = err + out
    if job['lane'].startswith('miri'):
        for m in re.finditer(r'error: (Undefined Behavior[^\n]*|memory leaked[^\n]*|the main thread terminated without waiting[^\n]*|deadlock[^\n]*|abnormal termination[^\n]*)', text):
            frame = re.search(r'(/repo/may_queue/src/[^\s:]+:\d+)', text[m.end():m.end() + 3000])
            seedm = re.findall(r'Trying seed: (\d+)|seed (\d+)', text[:m.start()])
            viol.append({'kind': 'sanitizer', 'msg': f'Miri: {m.group(1)[:200]} at {frame.group(1) if frame else "?"}', 'lane': job['lane'], 'qkind': job['kind'], 'cmd': ' '.join(job['cmd']), 'env': job['envdesc']})
            break
    if 'ERROR: AddressSanitizer' in text or 'WARNING: ThreadSanitizer' in text:
        head = re.search(r'(ERROR: AddressSanitizer: \S+|WARNING: ThreadSanitizer: [^\n(]+)', text)
        frame = re.search(r'(/repo/may_queue/src/[^\s:]+:\d+)', text)
        viol.append({'kind': 'sanitizer', 'msg': f'{head.group(1) if head else "sanitizer report"} at {frame.group(1) if frame else "?"}', 'lane': job['lane'], 'qkind': job['kind'], 'cmd': ' '.join(job['cmd']), 'env': job['envdesc']})
    if rc not in (0, 10) and not viol:
        kind = 'inconclusive' if rc == -999 else 'crash'
        tail = [l for l in text.splitlines() if l.strip()][-12:]
        viol.append({'kind': kind, 'msg': f'process ended with status {rc}: {" | ".join(tail)[-600:]}', 'lane': job['lane'], 'qkind': job['kind'], 'cmd': ' '.join(job['cmd']), 'env': job['envdesc']})
    return {'job': {k: v for k, v in job.items() if k not in ('env',)}, 'results': results, 'violations': viol, 'wall': time.time() - t0}


def setup():
    """pre-build the Miri sysroot and the miri target of q"""
    cmd, env = miri_cmd('selftest', (0, 1), 1, 1, MIRI_MEM)
    p = subprocess.run(['cargo', '+nightly', 'miri', 'setup'], cwd=f'{ROOT}/q', env=env, stdout=subprocess.PIPE, stderr=subprocess.STDOUT, text=True)
    if p.returncode != 0:
        log(p.stdout[-2000:])
        return False
    # compile q for miri (runs the tiny listseq once)
    cmd, env = miri_cmd('listseq', (0, 1), 1, 1, MIRI_MEM)
    p = subprocess.run(cmd, cwd=f'{ROOT}/q', env=env, stdout=subprocess.PIPE, stderr=subprocess.STDOUT, text=True)
    if p.returncode != 0:
        log(p.stdout[-2000:])
        return False
    log('[build] miri lane ready')
    return True


def run(prop, tier, seed, bins, plan, t0):
    thorough = tier == 'thorough'
    kinds = KINDS[prop]
    # selftest of the checkers first: a broken oracle decides nothing
    st = subprocess.run([bins['q'], 'selftest'], stdout=subprocess.PIPE, stderr=subprocess.STDOUT, text=True)
    if st.returncode != 0:
        log('HARNESS-ERROR checker self-test failed: ' + st.stdout[-500:])
        return 2
    jobs = []

    def sd(*parts):
        h = hashlib.sha256(('%d|' % seed + '|'.join(str(p) for p in parts)).encode()).digest()
        return int.from_bytes(h[:5], 'big')
    budget = 150 if thorough else 15
    for k in kinds:
        nshard = (6 if thorough else 4) if len(kinds) == 1 else (4 if thorough else 3)
        for s in range(nshard):
            cmd = [bins['q'], k, '--seed', str(sd(k, 'native', s)), '--execs', '1000000', '--budget-s', str(budget)] + (['--thorough'] if thorough else [])
            jobs.append({'lane': 'native', 'kind': k, 'cmd': cmd, 'env': ENV_BASE, 'envdesc': '', 'timeout': budget + 120})
        if True:
            # address-reuse allocator (native only, see q/src/main.rs mod reuse): ABA windows of packed pointers (spmc head,
            # mpsc tail), recycled list nodes and queue blocks
            for s in range((4 if thorough else 2) if k in ('spmc', 'spmcq') else (2 if thorough else 1)):
                cmd = [bins['q'], k, '--seed', str(sd(k, 'native-reuse', s)), '--execs', '1000000', '--budget-s', str(budget), '--reuse-alloc'] + (['--thorough'] if thorough else [])
                jobs.append({'lane': 'native-reuse', 'kind': k, 'cmd': cmd, 'env': ENV_BASE, 'envdesc': '--reuse-alloc', 'timeout': budget + 120})
        for s in range(2 if thorough else 1):
            cmd = [bins['qasan'], k, '--seed', str(sd(k, 'asan', s)), '--execs', '1000000', '--budget-s', str(budget)] + (['--thorough'] if thorough else [])
            jobs.append({'lane': 'asan', 'kind': k, 'cmd': cmd, 'env': dict(ENV_BASE, ASAN_OPTIONS='detect_leaks=1:halt_on_error=1:exitcode=23'), 'envdesc': 'ASAN_OPTIONS=detect_leaks=1', 'timeout': budget + 120})
        if k == 'mpsc' and 'qtsan' in bins:
            cmd = [bins['qtsan'], k, '--seed', str(sd(k, 'tsan')), '--execs', '1000000', '--budget-s', str(budget)]
            jobs.append({'lane': 'tsan', 'kind': k, 'cmd': cmd, 'env': dict(ENV_BASE, TSAN_OPTIONS='halt_on_error=1:exitcode=66'), 'envdesc': 'TSAN_OPTIONS=halt_on_error=1', 'timeout': budget + 120})
        # Miri: memory mode for every structure, race mode for mpsc
        nseeds = 256 if thorough else 16
        base = sd(k, 'miri') % 100000
        cmd, env = miri_cmd(k, (base, base + nseeds), 2, sd(k, 'miriseed'), MIRI_MEM)
        jobs.append({'lane': 'miri-memory', 'kind': k, 'cmd': cmd, 'env': env, 'cwd': f'{ROOT}/q', 'envdesc': f'MIRIFLAGS="{env["MIRIFLAGS"]}"', 'timeout': 1500 if thorough else 240})
        if k == 'mpsc':
            cmd, env = miri_cmd(k, (base, base + (64 if thorough else 6)), 2, sd(k, 'miriseed2'), MIRI_RACE)
            jobs.append({'lane': 'miri-race', 'kind': k, 'cmd': cmd, 'env': env, 'cwd': f'{ROOT}/q', 'envdesc': f'MIRIFLAGS="{env["MIRIFLAGS"]}"', 'timeout': 1500 if thorough else 240})
    log(f'[{prop}] tier={tier} seed={seed} jobs={len(jobs)} kinds={kinds}')
    # miri jobs are internally parallel: run them after the native ones to avoid oversubscription
    natives = [j for j in jobs if not j['lane'].startswith('miri')]
    miris = [j for j in jobs if j['lane'].startswith('miri')]
    with cf.ThreadPoolExecutor(max_workers=NCPU) as ex:
        outs = list(ex.map(run_one, natives))
    with cf.ThreadPoolExecutor(max_workers=4) as ex:
        outs += list(ex.map(run_one, miris))
    for o in outs:
        log(f"  [{o['job']['lane']}/{o['job']['kind']}] {o['wall']:.1f}s results={len(o['results'])} violations={len(o['violations'])}")
    # merge
    execs = ops = stalls = 0
    nont = set()
    per_lane, samples, site_tab = {}, [], {}
    violations, incon = [], 0
    for o in outs:
        lane, kind = o['job']['lane'], o['job']['kind']
        for r in o['results']:
            execs += r['execs']
            ops += r['ops']
            stalls += r['stalls_hit']
            nont.update(f"{kind}:{s}" for s in r.get('nontrivial_sigs', []))
            key = f'{kind}/{lane}'
            d = per_lane.setdefault(key, {'histories': 0, 'ops': 0, 'runs': 0})
            d['histories'] += r['execs']
            d['ops'] += r['ops']
            d['runs'] += 1
            for s, (h, st_) in r.get('site_hits_stalled', {}).items():
                t = site_tab.setdefault(s, [0, 0])
                t[0] += h
                t[1] += st_
            if len(samples) < 4 and r.get('samples'):
                samples.append(r['samples'][0])
        for v in o['violations']:
            if v['kind'] == 'inconclusive':
                incon += 1
            else:
                violations.append(v)
    from vcommon import load_known, match_known
    known = load_known()
    real, known_hits = [], {}
    for v in violations:
        v['scenario'] = 'q-' + v['qkind']
        k = match_known(v, prop, known)
        if k is not None:
            known_hits.setdefault(k['id'], (k, []))[1].append(v)
        else:
            real.append(v)
    for kid, (k, vs) in sorted(known_hits.items()):
        log(f"KNOWN-FINDING: property={prop} {k['id']}: {k['what']} (observed {len(vs)}x)")
    rc = 0
    os.makedirs(os.path.join(ROOT, 'replays'), exist_ok=True)
    seen = set()
    for v in real:
        sig = hashlib.sha1((v['scenario'] + v['kind'] + re.sub(r'\d+', '#', v['msg'])[:160]).encode()).hexdigest()[:10]
        path = os.path.join(ROOT, 'replays', f'{prop}-{sig}.json')
        if sig not in seen:
            seen.add(sig)
            json.dump({'property': prop, 'tier': tier, 'seed': seed, 'violation': v}, open(path, 'w'), indent=1)
            log(f'VIOLATION property={prop} replay={path}')
            log(f"  {v['scenario']} lane={v['lane']} kind={v['kind']}: {v['msg'][:900]}")
        rc = 1
    wall = time.time() - t0
    names = site_names()
    cov = {
        'evaluations': execs, 'distinct_nontrivial': len(nont), 'rule': RULE,
        'samples': samples or [{'note': 'no sample recorded'}],
        'operations_recorded': ops, 'executions_with_planned_stall_hit': stalls,
        'histories_and_ops_per_structure_and_lane': per_lane,
        'hook_site_hits_and_stalled': {names.get(s, s): v for s, v in sorted(site_tab.items(), key=lambda kv: int(kv[0]))},
        'checker_selftest': 'passed (12 hand-made bad/legal histories + locked VecDeque reference runs)',
        'inconclusive_runs': incon, 'known_findings_observed': {k: len(v[1]) for k, v in known_hits.items()}, 'unlisted_violations': len(real),
    }
    ev = {'property_id': prop, 'tier': tier, 'seed': seed, 'level': 'exploration', 'coverage': cov,
          'assumptions': ['verdicts hold for the histories driven only; x86-64 TSO natively, Miri weak-memory emulation only in race mode (mpsc)',
                          'data-race freedom as such is judged only for mpsc (DESIGN §2: formal races in spsc/spmc/list are documented, not judged)',
                          'consumer-side contract honoured by the harness (one consumer; list handles only touched on the consumer thread)'],
          'wall_s': round(wall, 2), 'violations': len(real)}
    if execs == 0 or len(nont) < 2:
        log(f'HARNESS-ERROR property={prop}: observed nothing (histories={execs}, distinct non-trivial={len(nont)})')
        if rc == 0:
            rc = 2
    os.makedirs(os.path.join(ROOT, 'evidence'), exist_ok=True)
    tmp = os.path.join(ROOT, 'evidence', f'{prop}.json.tmp')
    json.dump(ev, open(tmp, 'w'), indent=1)
    os.replace(tmp, os.path.join(ROOT, 'evidence', f'{prop}.json'))
    log(f'[{prop}] histories={execs} operations={ops} distinct non-trivial={len(nont)} stalls hit={stalls} lanes={sorted(per_lane)} inconclusive={incon} violations={len(real)} wall={wall:.1f}s')
    return rc


def site_names():
    try:
        out = subprocess.run([f'{TARGET}/plain/release/rt', '--sites'], stdout=subprocess.PIPE, text=True).stdout
        return {l.split()[0]: l.split()[1] for l in out.splitlines() if l.strip()}
    except Exception:
        return {}


def replay(rec):
    v = rec['violation']
    log(f"replaying: {v.get('env', '')} {v['cmd']}")
    env = dict(ENV_BASE)
    for m in re.finditer(r'(\w+)="([^"]*)"|(\w+)=(\S+)', v.get('env', '')):
        env[m.group(1) or m.group(3)] = m.group(2) if m.group(1) else m.group(4)
    if 'miri' in v['lane']:
        env.update(RUSTFLAGS='--cfg may_verif', CARGO_TARGET_DIR=f'{TARGET}/miri')
    n = 0
    for _ in range(5):
        p = subprocess.run(v['cmd'].split(' '), cwd=f'{ROOT}/q', env=env, stdout=subprocess.PIPE, stderr=subprocess.STDOUT, text=True)
        if p.returncode != 0:
            n += 1
            log(p.stdout[-1500:])
            break
    log(f'replay: {"reproduced" if n else "not reproduced in 5 runs"}')
    return 1 if n else 0
