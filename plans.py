"""Which scenario families, worker counts and lanes decide which property (see DESIGN §4, §8).

job keys: scen, workers[list], shards (processes per worker count, quick), lane (plain|asan),
          budget (s per shard, quick), nseeds/k/random (quick), t* = thorough values, thorough_only
"""

W124 = [1, 2, 4]


def S(scen, workers, shards=1, **kw):
    """stress job: hooks left uninstalled (their atomics act as fences and hide store->load reorderings), no stall plans"""
    return J(scen, workers, shards, no_hook=True, k=0, tk=0, random=0, trandom=0, nseeds=100000, tnseeds=100000, **kw)


def D(scen, workers, prefix, shards=1, **kw):
    """directed job: stall plans only for the hook windows the property is anchored in (site-name prefixes), every one of
    the first 10 hits plus 10 sampled later hits, and random 2-4-entry plans drawn from those windows only (two parties
    of one primitive held at once for different times: "the later one overtakes the earlier one")"""
    return J(scen, workers, shards, only_prefix=prefix, k=10, tk=24, random=8, trandom=32, **kw)


def H(scen, workers, sites, shards=1, **kw):
    """handshake job: plans over the two to four hook windows of one register/re-check vs publish/wake handshake only, so
    that nearly every random plan holds both sides of it at once (every-hit pairs, overtakes). D30 (1 in 150 000
    executions of the general sweep) falls within 200-1700 executions of such a shard."""
    return J(scen, workers, shards, only_prefix=sites, k=1, tk=2, random=24, trandom=48, **kw)


def J(scen, workers=W124, shards=1, lane='plain', **kw):
    d = {'scen': scen, 'workers': workers, 'shards': shards, 'lane': lane}
    d.update(kw)
    return d


PLANS = {
    'C01': {'jobs': [J('spawn', W124, 2), J('spawnp', [2, 4], 2), J('spawn', [2, 4], 1, 'asan'), J('spawnp', [4], 1, 'asan'),
                     J('spawn', [16], 1, thorough_only=True), J('spawn', [2, 4], 1, 'nosteal', thorough_only=True),
                     J('spawn', [2, 4], 1, 'cbsteal', thorough_only=True), J('spawn', [2, 4], 1, 'randsteal', thorough_only=True), S('joinrace', [2, 4], 1), D('spawn', [2, 4], 'JOIN_,CO_,SPAWN_,POOL_,RUN_,SCHED_'), H('spawn', [2], 'JOIN_WAIT_REGISTERED,JOIN_TRIGGER_STORED,CO_DONE_BEFORE_TRIGGER'), J('coldpin', [2, 4], 1, fresh=3, k=1, random=0), J('coldpin', [16], 1, fresh=3, k=1, random=0, thorough_only=True),
                     D('spawnp', [4], 'SPMC_,MPSC_'), J('spawnp', [2], 1, only_prefix='SPMC_BULK_LOADED', k=12, tk=24, random=0, trandom=0),
                     J('spawnp', [2], 2, only_prefix='SPMC_BULK_LOADED,SPMC_LPOP_LOADED', k=12, tk=24, random=4, trandom=8, reuse=True), J('spawn', [2, 4], 1, reuse=True), J('yieldspin', W124, 1, k=2, random=4), S('yieldspin', [2, 4], 1), J('yieldspin', [1, 2], 1, 'nosteal', thorough_only=True, k=1, random=0),
                     J('yieldspin', [2], 1, 'cbsteal', thorough_only=True, k=1, random=0), J('yieldspin', [2], 1, 'randsteal', thorough_only=True, k=1, random=0), J('yieldspinio', [1, 2], 1, k=1, random=2)]},
    'C02': {'jobs': [J('park', W124, 4), J('park', [2], 1, 'asan'), S('parkrace', [2, 4], 2), D('park', [1, 2], 'PARK_,CANCEL_,YIELD_,THREADPARK_'), H('park', [2], 'PARK_SUB_STORED,PARK_SUB_RECHECKED,PARK_UNPARK_SWAPPED,PARK_AFTER_CLEAR'), J('park', [2], 1, fresh=3, k=1, random=0), J('yieldspin', [1, 2], 1, k=1, random=2)]},
    'C05': {'jobs': [J('mutex', W124, 2), J('mutexc', W124, 2), J('relock', [1, 2], 1), J('cvc', [2], 1), J('mutexc', [2, 4], 1, 'asan'), S('hsmutex', [2, 4], 2), S('lockrace', [2, 4], 2), D('mutex', [1, 2], 'MUTEX_,SYNCBLOCKER_,PARK_'), D('mutexc', [2], 'MUTEX_,SYNCBLOCKER_,CANCEL_'), H('mutex', [2], 'MUTEX_LOCK_PUSHED,MUTEX_LOCK_COUNTED,MUTEX_UNLOCK_SUBBED'), J('stale', [1, 2], 1, k=1, random=2)]},
    'C06': {'jobs': [J('chan', W124, 4), J('chan', [2], 2, 'asan'), S('chanrace', [1, 2, 4], 2), D('chan', [1, 2], 'CH_,SEM_,SYNCBLOCKER_'), H('chan', [2], 'CH_MPSC_SEND_PUSHED,CH_MPSC_RECV_REGISTERED,CH_SPSC_SEND_PUSHED,CH_SPSC_SUB_STORED,CH_MPMC_SEND_PUSHED,CH_MPMC_RECV_EMPTY')]},
    'C07': {'jobs': [J('dis', W124, 3), J('disrx', W124, 1), J('dis', [2], 1, 'asan'), S('disrace', W124, 2), D('dis', [1, 2], 'CH_,SEM_'), H('dis', [2], 'CH_MPSC_DROPCHAN_BEFORE,CH_MPSC_RECV_REGISTERED,CH_SPSC_DROPCHAN_ZEROED,CH_SPSC_SUB_STORED,CH_MPMC_DROPTX_SUBBED,CH_MPMC_RECV_EMPTY')]},
    'C08': {'jobs': [J('tmr', W124, 3), J('tmrmix', W124, 1), J('tmr', [2, 4], 1, 'asan'), S('tmrrace', W124, 2), D('tmr', [1, 2], 'TT_,TL_,TIMER_,SLEEP_,LIST_,PARK_SUB'), H('tmr', [2], 'TT_ADD_BEFORE_WAKE,TT_BEFORE_PARK,TT_RUN_REGISTERED,TL_INSTALL_BH'), J('tmr', [2], 1, fresh=3, k=1, random=0), J('yieldspin', [1, 2], 1, k=1, random=2)]},
    'C09': {'jobs': [J('can', W124, 3), J('mutexc', [2], 1), J('semc', [1, 2], 1), J('cvc', [2], 1), J('relock', [2], 1), J('rwc', [2], 1), J('rwcr', [2], 1), J('iocan', [2], 1), J('iocant', [2], 1), J('iocanshare', [1, 2], 1),
                     J('can', [2, 4], 1, 'asan'), S('hsmutex', [2], 1), S('hssem', [2], 1), D('can', [2], 'CANCEL_,PARK_SUB,MUTEX_CANCEL,SEM_,CV_')]},
    'C10': {'jobs': [J('sem', W124, 2), J('semc', W124, 1), J('flag', W124, 1), J('semc', [2], 1, 'asan'), S('hssem', [2, 4], 2), S('semrace', [2, 4], 1), D('sem', [1, 2], 'SEM_,SYNCBLOCKER_'), D('semlock', [1, 2], 'SEM_,SYNCBLOCKER_'), J('semlock', [2, 4], 1), D('flag', [2], 'FLAG_'), H('sem', [2], 'SEM_WAIT_PUSHED,SEM_WAIT_SUBBED,SEM_POST_ADDED'), H('flag', [2], 'FLAG_WAIT_PUSHED,FLAG_WAIT_SUBBED,FLAG_FIRE_STORED'), J('stale', [1, 2], 1, k=1, random=2)]},
    'C11': {'jobs': [J('cv', W124, 2), J('cvc', W124, 1), J('relock', W124, 1), J('barc', W124, 1), J('bar', W124, 1), J('cvc', [2], 1, 'asan'), S('cvrace', [2, 4], 2), D('cv', [1, 2], 'CV_,SYNCBLOCKER_,MUTEX_'), D('cvc', [2], 'CV_,SYNCBLOCKER_,MUTEX_CANCEL'), H('cv', [2], 'CV_WAIT_PUSHED,CV_WAIT_UNLOCKED,CV_NOTIFY_POPPED,CV_ERR_CHECK'), J('stale', [1, 2], 1, k=1, random=2), J('cvpoison', W124, 1)]},
    'C12': {'jobs': [J('rwseq', [1], 2), J('rw', W124, 2), J('rwc', W124, 2), J('rwcr', W124, 1), J('rwseq', [1], 1, 'rel'), J('rw', [2], 1, 'rel'),
                     J('rw', [2, 4], 1, 'asan', thorough_only=True), D('rw', [1, 2], 'RW_'), D('rwc', [2], 'RW_,MUTEX_CANCEL'), H('rw', [2], 'RW_LOCK_PUSHED,RW_LOCK_COUNTED,RW_UNLOCK_SUBBED'), J('stale', [1, 2], 1, k=1, random=2)]},
    'C13': {'jobs': [J('pan', W124, 3), J('pan', [2, 4], 2, 'asan'), D('pan', [2], 'CQ_,SCOPE_,PARK_SUB,RUN_'), J('cvpoison', [1, 2], 1), J('cq', [1, 2], 1)]},
    'C14': {'jobs': [J('scope', W124, 3), J('selc', W124, 1), J('scope', [2, 4], 1, 'asan'), J('selc', [2], 1, 'asan'), D('scope', [1, 2], 'SCOPE_,JOIN_,CQ_,CANCEL_'), H('selc', [2], 'CQ_DROP_PUSHED,CQ_POLL_COUNTED'), J('cq', W124, 1), H('cq', [2], 'CQ_DROP_PUSHED,CQ_DROP_SUBBED,CQ_POLL_EMPTY,CQ_POLL_COUNTED')]},
    'C15': {'jobs': [J('cls', W124, 3), J('pan', [2], 2), J('cls', [2, 4], 1, 'asan'), D('cls', [2], 'POOL_,SPAWN_,CO_,CANCEL_,YIELD_'), J('cls', [2], 1, fresh=3, k=1, random=0)]},
    'C16': {'jobs': [J('sel', W124, 2), J('cq', W124, 2), J('cq', [2, 4], 1, 'asan'), S('cqrace', [2, 4], 2), D('cq', [1, 2], 'CQ_'), D('sel', [2], 'CQ_'), H('cq', [2, 4], 'CQ_DROP_PUSHED,CQ_POLL_COUNTED'), H('sel', [2], 'CQ_SEND_SUB_PUSHED,CQ_POLL_REGISTERED,CQ_POLL_COUNTED'), J('selc', [2], 1)]},
    'C17': {'jobs': [J('io', W124, 2), J('tcp', W124, 1), J('dgram', W124, 1), J('io', [2], 1, 'asan'), J('tcp', [2], 1, 'asan'), J('iochurn', W124, 1), J('unixsrv', [2, 4], 1), S('iorace', [1, 2, 4], 2),
                     J('tcp', [16], 1, thorough_only=True), J('iochurn', [16], 1, thorough_only=True), S('unixsrv', [16], 1, thorough_only=True), D('io', [2], 'IO_READ,IO_WRITE,EP_,IOTHREAD_'), D('tcp', [2], 'IO_ACCEPT,IO_CONNECT,EP_'), H('io', [2], 'IO_READ_EAGAIN,IO_READ_SUB_STORED,IO_WRITE_EAGAIN,IO_WRITE_SUB_STORED,EP_EVENT_FLAGGED'), J('tcp', [2], 1, fresh=3, k=1, random=0), J('yieldspinio', [1, 2], 1, k=1, random=2), J('ioext', W124, 1), J('ioext', [2], 1, 'asan')]},
    'C18': {'jobs': [J('iot', W124, 3), J('iocan', W124, 2), J('iocant', W124, 1), J('iot', [2], 1, 'asan'), D('iot', [2], 'IO_,EP_,TL_,LIST_'), D('iocan', [2], 'IO_,CANCEL_'), H('iot', [2, 4], 'IO_TIMEOUT_TIMER_TAKEN,IO_TIMEOUT_HANDLER_ENTER,IO_READ_SUB_ARMED,IO_READ_SUB_STORED,IO_SCHEDULE_TOOK,IO_READ_EAGAIN'), J('yieldspinio', [1, 2], 1, k=1, random=2), J('ioext', [1, 2], 1), S('iotrace', [1, 2, 4], 1), S('iotrace', [2], 1), J('iocanshare', [2], 1)]},
    'C03': {'engine': 'q', 'jobs': [J('q', lane='q'), J('q', lane='qasan'), J('q', lane='qtsan')]},
    'C04': {'engine': 'q', 'jobs': [J('q', lane='q'), J('q', lane='qasan')]},
    'C19': {'engine': 'q', 'jobs': [J('q', lane='q'), J('q', lane='qasan')]},
}

LEVEL = {p: 'exploration' for p in PLANS}
LEVEL.update({'C09': 'fault_enumeration', 'C13': 'fault_enumeration', 'C14': 'fault_enumeration'})

RULES = {
    'default': ('executions = seeded scenario instances (2-8 thread/coroutine actors, <= ~300 API calls) run on the real runtime: one dry run per '
                'instance, then one execution per (reached hook site, k-th hit <= K) that stalls that hit for 3 ms while everything else runs to '
                'quiescence (the first K hits and K sampled later hits), plus random 2-4-entry plans and "overtake" plans (two consecutive hits of one '
                'site, the earlier held longer); general shards over every reached site, directed shards over the hook windows the property is '
                'anchored in, and no-hook stress shards (10^3-10^5 tight rounds per execution, hooks uninstalled because their atomics act as '
                'fences); on 1/2/4 workers (16 in the thorough tier), every third shard with workers pinned to cores. An execution is non-trivial if its planned stall was actually hit or '
                'at least two OS threads alternated in its hook trace; distinct = distinct hash of the (hook site, normalised OS thread) sequence '
                'of the execution (idle-loop sites excluded). Every execution is judged by the scenario oracle over its API-boundary event log and '
                'by the quiescence oracle (stranded = no event, no hook hit, no stall pending, every other OS thread asleep, with open calls).'),
}
for p in ('C09', 'C13', 'C14'):
    RULES[p] = ('fault enumeration: ' + RULES['default'] + ' The fault (cancel of the target / of the scope owner; panic at a chosen point) is released '
                'at the stalled hook hit itself (plan flag +fire), so faults are enumerated over (primitive or shape) x (hook window on the path of '
                'target and waker) x (k-th hit), not sampled by time only.')

# dedicated probes of the known findings: (scenario, plan) that re-create exactly the listed shape
PROBES = [
    {'id': 'D2', 'properties': ['C08'], 'scen': 'probe_d2', 'workers': 2, 'one': '1/77:1:8000:0', 'reps': 2},
    {'id': 'D2io', 'properties': ['C18'], 'scen': 'probe_d2io', 'workers': 2, 'one': '1/201:1:8000:0', 'reps': 3},
    {'id': 'D13', 'properties': ['C09', 'C12'], 'scen': 'probe_d13', 'workers': 2, 'one': '1/', 'reps': 5},
    {'id': 'D14', 'properties': ['C17'], 'scen': 'probe_d14', 'workers': 4, 'one': '1/205:0:3000:0', 'reps': 6, 'lane': 'asan'},
]
